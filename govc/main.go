package main

import (
	"flag"
	"fmt"
	"os"
	"path/filepath"
	"sort"
	"strings"
	"sync"
	"time"

	"golang.org/x/tools/go/ssa"
)

func main() {
	if len(os.Args) < 2 {
		fmt.Fprintln(os.Stderr, "usage: govc <sweep|check|dump|replay> ...")
		os.Exit(2)
	}
	switch os.Args[1] {
	case "sweep":
		cmdSweep(os.Args[2:])
	case "dump":
		cmdDump(os.Args[2:])
	case "check":
		cmdCheck(os.Args[2:])
	case "externals":
		cmdExternals()
	case "baseline-all":
		cmdBaselineAll(os.Args[2:])
	case "writes":
		// debug: field-level write set of a function
		setup("")
		for _, fn := range selectFuncs(os.Args[2]) {
			fw := funcFieldWrites(fn, map[*ssa.Function]bool{})
			var ns []string
			for n := range fw {
				ns = append(ns, n)
			}
			sort.Strings(ns)
			for _, n := range ns {
				var fs []string
				for f := range fw[n].fields {
					fs = append(fs, f)
				}
				sort.Strings(fs)
				fmt.Printf("%s any=%v %s\n", n, fw[n].any, strings.Join(fs, " "))
			}
		}
	default:
		fmt.Fprintln(os.Stderr, "unknown command")
		os.Exit(2)
	}
}

func setup(repo string) {
	selectThroughHavoc = func(h, addr *Term) bool {
		id := h.Name
		if j := strings.Index(id[6:], "$"); j >= 0 {
			id = id[:6+j]
		}
		// field-level write set of the callee: a cell that is field i of struct K keeps its value
		// when no store in the callee's transitive closure can reach that field
		if fw := havocFieldWrites[id]; fw != nil && addr.Op == "mkref" && addr.Args[1].Op == "pfld" {
			if j := strings.Index(h.Name, "$M$"); j >= 0 {
				arr := h.Name[j+1:]
				if k, ok := addr.Args[1].Args[1].IntVal(); ok {
					fs := fw[arr]
					if fs == nil || (!fs.any && !fs.fields[fmt.Sprintf("%s#%d", addr.Args[1].Name, k)]) {
						return true
					}
				}
			}
		}
		reach := havocReach[id]
		if reach == nil {
			return false
		}
		if j := strings.Index(h.Name, "$M$"); j >= 0 && reach["*"+h.Name[j+3:]] {
			return false
		}
		if reach["*"] {
			return false
		}
		ks := pathStructKeys(addr)
		if len(ks) == 0 {
			return false
		}
		for _, k := range ks {
			if reach[k] {
				return false
			}
		}
		for _, da := range havocArgs[id] {
			if !cellOutsideArg(addr, ks, da) {
				return false
			}
		}
		return true
	}
	if repo != "" {
		repoDir = repo
	}
	prog = loadProgram()
	runInitProbe()
	loadSpecFile("/verif/specs/external.spec", false)
	loadSpecFile(repoDir+"/verif_contracts.go", false)
	loadSpecFile(repoDir+"/sexp/verif_contracts.go", false)
	loadAxioms()
}

func selectFuncs(pat string) []*ssa.Function {
	var out []*ssa.Function
	for _, fn := range prog.allFuncsWithAnon() {
		n := funcName(fn)
		if pat != "" {
			ok := false
			for _, p := range strings.Split(pat, ",") {
				if n == p || (strings.HasSuffix(p, "*") && strings.HasPrefix(n, strings.TrimSuffix(p, "*"))) {
					ok = true
				}
			}
			if !ok {
				continue
			}
		}
		out = append(out, fn)
	}
	return out
}

func excluded(fn *ssa.Function) string {
	n := funcName(fn)
	pos := prog.Fset.Position(fn.Pos())
	switch {
	case fn.Name() == "init" || strings.HasPrefix(fn.Name(), "init#") || strings.HasPrefix(n, "initTLVHandlers"):
		return "package initialisation (executed by the init probe, not verified)"
	case strings.HasSuffix(pos.Filename, "debug.go"):
		return "debug.go is out of scope"
	case strings.HasSuffix(pos.Filename, "verif_hooks.go"):
		return "verification hook"
	}
	return ""
}

func cmdSweep(args []string) {
	fs := flag.NewFlagSet("sweep", flag.ExitOnError)
	fnPat := fs.String("fn", "", "function name(s)")
	props := fs.String("props", "", "property ids, comma separated (default all)")
	repo := fs.String("repo", "", "repository directory")
	indiv := fs.Bool("individual", false, "one query per obligation")
	verbose := fs.Bool("v", false, "verbose")
	to := fs.Int("timeout", 10, "solver timeout (s)")
	keep := fs.String("keep", "", "directory to keep VC files in")
	genOnly := fs.Bool("gen", false, "generate only")
	fs.Parse(args)
	solverTimeout = *to
	keepVC = *keep
	setup(*repo)
	var pset map[string]bool
	if *props != "" {
		pset = map[string]bool{}
		for _, p := range strings.Split(*props, ",") {
			pset[p] = true
		}
	}
	sel := func(o *Obl) bool { return hasProp(o, pset) }
	start := time.Now()
	fns := selectFuncs(*fnPat)
	if *fnPat == "@scope" {
		fns = scopeFuncs()
	}
	var results []*FuncResult
	for _, fn := range fns {
		if why := excluded(fn); why != "" {
			continue
		}
		t0 := time.Now()
		r := verifyFunction(fn)
		if *verbose || time.Since(t0) > 2*time.Second {
			fmt.Fprintf(os.Stderr, "gen %-50s %.2fs events=%d terms=%d\n", funcName(fn), time.Since(t0).Seconds(), len(r.Events), termCount)
		}
		results = append(results, r)
	}
	genT := time.Since(start)
	if *genOnly {
		fmt.Printf("generated %d functions in %.1fs, %d terms\n", len(results), genT.Seconds(), termCount)
		return
	}
	var wg sync.WaitGroup
	var outMu sync.Mutex
	tot, ok, triv, bad, unk, unsup := 0, 0, 0, 0, 0, 0
	sort.Slice(results, func(i, j int) bool { return results[i].Name < results[j].Name })
	report := func(r *FuncResult) {
		outMu.Lock()
		defer outMu.Unlock()
		if r.Unsupported != "" {
			unsup++
			fmt.Printf("OUT-OF-REACH %-50s %s\n", r.Name, r.Unsupported)
			return
		}
		if r.Skipped != "" {
			if *verbose {
				fmt.Printf("SKIPPED %-50s %s\n", r.Name, r.Skipped)
			}
			return
		}
		for _, o := range r.Obls {
			if !sel(o) {
				continue
			}
			tot++
			switch o.Status {
			case "trivial":
				triv++
				ok++
			case "unsat":
				ok++
			case "sat":
				bad++
				fmt.Printf("FAIL    %s  (%s, %s %.2fs)\n", o.Name, prog.posString(o.Pos), o.Solver, o.TimeS)
				if *verbose {
					fmt.Println(indent(trunc(o.Model, 3000)))
				}
			default:
				unk++
				fmt.Printf("UNKNOWN %s  (%s) %s\n", o.Name, prog.posString(o.Pos), trunc(o.Model, 200))
			}
			if *verbose && (o.Status == "unsat" || o.Status == "trivial") {
				fmt.Printf("ok      %s (%s %.2fs)\n", o.Name, o.Solver, o.TimeS)
			}
		}
	}
	fsem := make(chan struct{}, 6)
	for _, r := range results {
		wg.Add(1)
		go func(r *FuncResult) {
			defer wg.Done()
			fsem <- struct{}{}
			discharge(r, sel, *indiv)
			<-fsem
			report(r)
		}(r)
	}
	wg.Wait()
	fmt.Printf("functions=%d out-of-reach=%d obligations=%d discharged=%d (trivial %d) failed=%d unknown=%d gen=%.1fs total=%.1fs\n",
		len(results), unsup, tot, ok, triv, bad, unk, genT.Seconds(), time.Since(start).Seconds())
}

func indent(s string) string {
	return "    " + strings.ReplaceAll(s, "\n", "\n    ")
}

var dumpLen = 400

func cmdDump(args []string) {
	fs := flag.NewFlagSet("dump", flag.ExitOnError)
	fnPat := fs.String("fn", "", "function name")
	repo := fs.String("repo", "", "repository directory")
	ssaDump := fs.Bool("ssa", false, "print SSA")
	fs.IntVar(&dumpLen, "len", 400, "goal print length")
	fs.Parse(args)
	setup(*repo)
	for _, fn := range selectFuncs(*fnPat) {
		if *ssaDump {
			fn.WriteTo(os.Stdout)
			continue
		}
		r := verifyFunction(fn)
		fmt.Printf("== %s unsupported=%q skipped=%q\n", r.Name, r.Unsupported, r.Skipped)
		for _, e := range r.Events {
			if e.Assume != nil {
				fmt.Printf("  assume %s\n", trunc(e.Assume.String(), 400))
			} else {
				fmt.Printf("  OBL %s [%s] guard=%s\n      goal=%s\n", e.Obl.Name, e.Obl.Status, trunc(e.Obl.Guard.String(), 200), trunc(e.Obl.Goal.String(), dumpLen))
			}
		}
	}
}

func cmdExternals() {
	setup("")
	cnt := map[string]int{}
	for _, fn := range prog.allFuncsWithAnon() {
		if excluded(fn) != "" {
			continue
		}
		for _, b := range fn.Blocks {
			for _, insn := range b.Instrs {
				ci, ok := insn.(ssa.CallInstruction)
				if !ok {
					continue
				}
				c := ci.Common()
				if c.IsInvoke() {
					if closedImpls(c.Value.Type()) == nil {
						cnt["iface "+c.Value.Type().String()+"."+c.Method.Name()]++
					}
					continue
				}
				if f := c.StaticCallee(); f != nil {
					if !inScope(f) {
						cnt["func "+extName(f)]++
					}
					continue
				}
				if _, isB := c.Value.(*ssa.Builtin); !isB {
					cnt["dyn "+c.Value.Type().String()]++
				}
			}
		}
	}
	var ks []string
	for k := range cnt {
		ks = append(ks, k)
	}
	sort.Strings(ks)
	for _, k := range ks {
		fmt.Printf("%4d %s\n", cnt[k], k)
	}
}

// cmdBaselineAll verifies every function in scope once and writes one
// baseline list per property: the obligations that discharged quickly.
func cmdBaselineAll(args []string) {
	fs := flag.NewFlagSet("baseline-all", flag.ExitOnError)
	to := fs.Int("timeout", 10, "solver timeout (s)")
	maxT := fs.Float64("max", 4.0, "only obligations discharged faster than this enter the baseline")
	merge := fs.Bool("intersect", false, "intersect with the existing baseline files")
	strict := fs.Bool("strict", false, "assume only obligations of the existing baseline lists (as the checks do)")
	fs.Parse(args)
	solverTimeout = *to
	setup("")
	if *strict {
		provenElsewhere = map[string]bool{}
		if files, err := filepath.Glob("/verif/baseline/C[0-9][0-9].txt"); err == nil {
			for _, f := range files {
				for n := range loadBaseline(strings.TrimSuffix(filepath.Base(f), ".txt")) {
					provenElsewhere[n] = true
				}
			}
		}
	}
	var results []*FuncResult
	for _, fn := range scopeFuncs() {
		results = append(results, verifyFunction(fn))
	}
	if lr := verifyLemmas(); lr != nil {
		results = append(results, lr)
	}
	var wg sync.WaitGroup
	fsem := make(chan struct{}, 6)
	all := func(o *Obl) bool { return true }
	for _, r := range results {
		wg.Add(1)
		go func(r *FuncResult) {
			defer wg.Done()
			fsem <- struct{}{}
			discharge(r, all, false)
			<-fsem
		}(r)
	}
	wg.Wait()
	per := map[string][]string{}
	all2 := map[string][]string{}
	nOK, nAll := 0, 0
	for _, r := range results {
		for _, o := range r.Obls {
			nAll++
			for _, p := range o.Props {
				all2[p] = append(all2[p], o.Name)
			}
			if (o.Status == "unsat" || o.Status == "trivial") && o.TimeS < *maxT {
				nOK++
				for _, p := range o.Props {
					per[p] = append(per[p], o.Name)
				}
			} else if o.Status != "unsat" && o.Status != "trivial" {
				fmt.Printf("%-8s %s\n", o.Status, o.Name)
			}
		}
	}
	os.MkdirAll("/verif/baseline", 0o755)
	for p, names := range all2 {
		sort.Strings(names)
		if *merge {
			// union with the earlier list
			for n := range loadBaseline(p + ".all") {
				names = append(names, n)
			}
			sort.Strings(names)
		}
		var out []string
		for i, n := range names {
			if i == 0 || names[i-1] != n {
				out = append(out, n)
			}
		}
		os.WriteFile("/verif/baseline/"+p+".all.txt", []byte(strings.Join(out, "\n")+"\n"), 0o644)
	}
	for p, names := range per {
		sort.Strings(names)
		if *merge {
			old := loadBaseline(p)
			var keep []string
			for _, n := range names {
				if old == nil || old[n] {
					keep = append(keep, n)
				}
			}
			names = keep
		}
		// dedupe
		var out []string
		for i, n := range names {
			if i == 0 || names[i-1] != n {
				out = append(out, n)
			}
		}
		os.WriteFile("/verif/baseline/"+p+".txt", []byte(strings.Join(out, "\n")+"\n"), 0o644)
		fmt.Printf("baseline %s: %d obligations\n", p, len(out))
	}
	fmt.Printf("obligations=%d baseline-eligible=%d\n", nAll, nOK)
}
