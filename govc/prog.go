package main

// Loading of /repo (go/packages + go/ssa), global tables: package-level
// variables, functions, interface implementations, string constants.

import (
	"fmt"
	"go/ast"
	"go/token"
	"go/types"
	"os"
	"sort"
	"strings"

	"golang.org/x/tools/go/packages"
	"golang.org/x/tools/go/ssa"
	"golang.org/x/tools/go/ssa/ssautil"
)

type Program struct {
	Fset    *token.FileSet
	Pkgs    []*packages.Package
	SSA     *ssa.Program
	SPkgs   []*ssa.Package // packages under verification
	Funcs   map[string]*ssa.Function
	FuncIDs map[*ssa.Function]int
	FuncByID []*ssa.Function
	Globals map[*ssa.Global]int
	GlobalList []*ssa.Global
	NG      int // ids 1..NG are the global region
	TypeTag map[string]int // typeKey -> interface tag
	TagType []types.Type
	// concrete types that are converted to interfaces anywhere in the program (closed world for in-package interfaces)
	IfaceImpls []types.Type
	srcCache map[string][]byte
	fileOf   map[*token.File]*ast.File
}

var prog *Program

var repoDir = "/repo"

func loadProgram() *Program {
	cfg := &packages.Config{Mode: packages.LoadAllSyntax, Dir: repoDir, BuildFlags: []string{"-tags=verif"},
		Env: append(os.Environ(), "GOFLAGS=-mod=mod", "GOPROXY=off", "GOSUMDB=off", "GOTOOLCHAIN=local")}
	pkgs, err := packages.Load(cfg, ".", "./sexp")
	if err != nil {
		fatal("load: %v", err)
	}
	if packages.PrintErrors(pkgs) > 0 {
		fatal("package errors")
	}
	sprog, spkgs := ssautil.AllPackages(pkgs, ssa.InstantiateGenerics|ssa.GlobalDebug)
	sprog.Build()
	p := &Program{Fset: pkgs[0].Fset, Pkgs: pkgs, SSA: sprog, SPkgs: spkgs,
		Funcs: map[string]*ssa.Function{}, FuncIDs: map[*ssa.Function]int{}, Globals: map[*ssa.Global]int{},
		TypeTag: map[string]int{}, srcCache: map[string][]byte{}, fileOf: map[*token.File]*ast.File{}}
	p.FuncByID = append(p.FuncByID, nil)
	p.TagType = append(p.TagType, nil)
	for _, pk := range pkgs {
		for _, f := range pk.Syntax {
			p.fileOf[p.Fset.File(f.Pos())] = f
		}
	}
	// deterministic order of packages: otr3 first
	sort.Slice(spkgs, func(i, j int) bool { return spkgs[i].Pkg.Path() < spkgs[j].Pkg.Path() })
	for _, sp := range spkgs {
		var names []string
		for n := range sp.Members {
			names = append(names, n)
		}
		sort.Strings(names)
		for _, n := range names {
			switch m := sp.Members[n].(type) {
			case *ssa.Global:
				p.GlobalList = append(p.GlobalList, m)
				p.Globals[m] = len(p.GlobalList)
			case *ssa.Function:
				p.addFunc(m)
			case *ssa.Type:
				// methods
				for _, T := range []types.Type{m.Type(), types.NewPointer(m.Type())} {
					ms := sprog.MethodSets.MethodSet(T)
					for i := 0; i < ms.Len(); i++ {
						if fn := sprog.MethodValue(ms.At(i)); fn != nil && fn.Pkg == sp && fn.Synthetic == "" {
							p.addFunc(fn)
						}
					}
				}
			}
		}
	}
	// Global region: ids 1..len(globals) are the variables themselves; ids up to
	// NG are reserved for objects they reference (assigned by globalFacts).
	p.NG = len(p.GlobalList) + 4096
	// collect element types, interface implementations
	seenT := map[string]bool{}
	var noteType func(t types.Type)
	noteType = func(t types.Type) {
		k := types.TypeString(t, nil)
		if seenT[k] {
			return
		}
		seenT[k] = true
		switch u := t.Underlying().(type) {
		case *types.Slice:
			noteElemType(u.Elem())
			noteType(u.Elem())
		case *types.Array:
			noteElemType(u.Elem())
			noteType(u.Elem())
		case *types.Pointer:
			noteType(u.Elem())
		case *types.Struct:
			for i := 0; i < u.NumFields(); i++ {
				noteType(u.Field(i).Type())
			}
		case *types.Tuple:
			for i := 0; i < u.Len(); i++ {
				noteType(u.At(i).Type())
			}
		case *types.Signature:
			noteType(u.Params())
			noteType(u.Results())
		}
	}
	implSeen := map[string]bool{}
	for _, fn := range p.allFuncsWithAnon() {
		for _, par := range fn.Params {
			noteType(par.Type())
		}
		for _, b := range fn.Blocks {
			for _, ins := range b.Instrs {
				if v, ok := ins.(ssa.Value); ok {
					noteType(v.Type())
				}
				if mi, ok := ins.(*ssa.MakeInterface); ok {
					k := typeKey(mi.X.Type())
					if !implSeen[k] {
						implSeen[k] = true
						p.IfaceImpls = append(p.IfaceImpls, mi.X.Type())
					}
				}
			}
		}
	}
	sort.Slice(p.IfaceImpls, func(i, j int) bool { return typeKey(p.IfaceImpls[i]) < typeKey(p.IfaceImpls[j]) })
	for _, t := range p.IfaceImpls {
		p.tagOf(t)
	}
	return p
}

func (p *Program) addFunc(fn *ssa.Function) {
	name := funcName(fn)
	if _, ok := p.Funcs[name]; ok {
		return
	}
	p.Funcs[name] = fn
	p.FuncByID = append(p.FuncByID, fn)
	p.FuncIDs[fn] = len(p.FuncByID) - 1
	for _, a := range fn.AnonFuncs {
		p.addFunc(a)
	}
}

func (p *Program) funcID(fn *ssa.Function) int {
	if id, ok := p.FuncIDs[fn]; ok {
		return id
	}
	p.FuncByID = append(p.FuncByID, fn)
	p.FuncIDs[fn] = len(p.FuncByID) - 1
	return len(p.FuncByID) - 1
}

func (p *Program) allFuncsWithAnon() []*ssa.Function {
	var out []*ssa.Function
	var names []string
	for n := range p.Funcs {
		names = append(names, n)
	}
	sort.Strings(names)
	for _, n := range names {
		out = append(out, p.Funcs[n])
	}
	return out
}

func (p *Program) tagOf(t types.Type) int {
	k := typeKey(t)
	if id, ok := p.TypeTag[k]; ok {
		return id
	}
	p.TagType = append(p.TagType, t)
	p.TypeTag[k] = len(p.TagType) - 1
	return len(p.TagType) - 1
}

// funcName: stable, contract-file name of a function: "Name", "(T).m",
// "(*T).m", "outer$1"; functions of package sexp are prefixed "sexp.".
func funcName(fn *ssa.Function) string {
	if fn == nil {
		return "<nil>"
	}
	prefix := ""
	if fn.Pkg != nil && fn.Pkg.Pkg.Name() != "otr3" {
		prefix = fn.Pkg.Pkg.Name() + "."
	}
	if fn.Parent() != nil {
		return funcName(fn.Parent()) + "$" + strings.TrimPrefix(fn.Name(), fn.Parent().Name()+"$")
	}
	if recv := fn.Signature.Recv(); recv != nil {
		rt := recv.Type()
		ptr := ""
		if pt, ok := rt.(*types.Pointer); ok {
			ptr = "*"
			rt = pt.Elem()
		}
		tn := rt.String()
		if n, ok := rt.(*types.Named); ok {
			tn = n.Obj().Name()
		}
		return fmt.Sprintf("%s(%s%s).%s", prefix, ptr, tn, fn.Name())
	}
	return prefix + fn.Name()
}

func inScope(fn *ssa.Function) bool {
	if fn == nil {
		return false
	}
	if fn.Pkg == nil {
		// synthetic wrappers (promoted methods, bound methods) of in-scope types
		if fn.Synthetic != "" && fn.Blocks != nil && fn.Object() != nil && fn.Object().Pkg() != nil {
			p := fn.Object().Pkg().Path()
			return p == "github.com/coyim/otr3" || p == "github.com/coyim/otr3/sexp"
		}
		return false
	}
	path := fn.Pkg.Pkg.Path()
	return path == "github.com/coyim/otr3" || path == "github.com/coyim/otr3/sexp"
}

// snippet returns the source text of the smallest AST node starting at pos.
func (p *Program) snippet(pos token.Pos) string {
	if !pos.IsValid() {
		return ""
	}
	tf := p.Fset.File(pos)
	if tf == nil {
		return ""
	}
	f := p.fileOf[tf]
	if f == nil {
		return ""
	}
	var best ast.Node
	ast.Inspect(f, func(n ast.Node) bool {
		if n == nil {
			return false
		}
		if n.Pos() <= pos && pos < n.End() {
			if _, ok := n.(ast.Expr); ok {
				// prefer the outermost expression whose operator sits at pos, else innermost containing
				switch e := n.(type) {
				case *ast.IndexExpr:
					if e.Lbrack == pos {
						best = n
						return false
					}
				case *ast.SliceExpr:
					if e.Lbrack == pos {
						best = n
						return false
					}
				case *ast.BinaryExpr:
					if e.OpPos == pos {
						best = n
						return false
					}
				case *ast.CallExpr:
					if e.Lparen == pos {
						best = n
						return false
					}
				case *ast.StarExpr:
					if e.Star == pos {
						best = n
						return false
					}
				case *ast.SelectorExpr:
					if e.Sel.Pos() == pos {
						best = n
						return false
					}
				case *ast.TypeAssertExpr:
					if e.Lparen == pos {
						best = n
						return false
					}
				}
				if n.Pos() == pos {
					if best == nil {
						best = n
					}
				}
			}
			return true
		}
		return false
	})
	if best == nil {
		return ""
	}
	src := p.src(tf.Name())
	s := string(src[tf.Offset(best.Pos()):tf.Offset(best.End())])
	s = strings.Join(strings.Fields(s), " ")
	if len(s) > 80 {
		s = s[:80]
	}
	return s
}

func (p *Program) src(name string) []byte {
	if b, ok := p.srcCache[name]; ok {
		return b
	}
	b, _ := os.ReadFile(name)
	p.srcCache[name] = b
	return b
}

func (p *Program) posString(pos token.Pos) string {
	if !pos.IsValid() {
		return "?"
	}
	ps := p.Fset.Position(pos)
	return fmt.Sprintf("%s:%d", strings.TrimPrefix(ps.Filename, repoDir+"/"), ps.Line)
}

// contractErr: a contract clause that cannot be evaluated against the code (an identifier of the clause
// no longer exists in the function).  On the unchanged tree this is a mistake in the contract file
// and fatal; in a check it means the code under the contract changed so that the clause no longer
// applies, and the function's proved obligations are reported as failed.
type contractErr struct{ msg string }

var recoverContractErrors = false

func contractFatal(f string, a ...interface{}) {
	if recoverContractErrors {
		panic(contractErr{fmt.Sprintf(f, a...)})
	}
	fatal(f, a...)
}

func fatal(f string, a ...interface{}) {
	fmt.Fprintf(os.Stderr, "govc: "+f+"\n", a...)
	os.Exit(2)
}
