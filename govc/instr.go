package main

// Semantics of individual go/ssa instructions.

import (
	"fmt"
	"strings"
	"go/token"
	"go/types"

	"golang.org/x/tools/go/ssa"
)

func bv64(n int64) *Term { return BVLit(uint64(n), 64) }

// toWidth converts an integer term of Go type from to bit width w.
func convInt(v *Term, from types.Type, w int) *Term {
	fw := v.Sort.W
	switch {
	case fw == w:
		return v
	case fw > w:
		return Extract(w-1, 0, v)
	case isSigned(from):
		return SExt(v, w)
	default:
		return ZExt(v, w)
	}
}

func (fr *Frame) exec(insn ssa.Instruction, st *State) {
	ex := fr.ex
	switch x := insn.(type) {
	case *ssa.DebugRef:
		return
	case *ssa.Alloc:
		r := ex.newObj()
		T := x.Type().Underlying().(*types.Pointer).Elem()
		st.store(r, T, zeroOf(T))
		fr.vals[x] = r
	case *ssa.UnOp:
		fr.vals[x] = fr.unop(x, st)
	case *ssa.BinOp:
		fr.vals[x] = fr.binop(x.Op, fr.val(x.X), fr.val(x.Y), x.X.Type(), x.Y.Type(), x.Pos())
	case *ssa.FieldAddr:
		p := fr.val(x.X)
		fr.obl("nil", x.Pos(), Neq(p, Null), "C13")
		sT := x.X.Type().Underlying().(*types.Pointer).Elem()
		fr.vals[x] = FldRef(p, x.Field, structInfo(sT).Key)
	case *ssa.Field:
		si := structInfo(x.X.Type())
		fr.vals[x] = StructField(si, fr.val(x.X), x.Field)
	case *ssa.IndexAddr:
		fr.indexAddr(x, st)
	case *ssa.Index:
		fr.index(x, st)
	case *ssa.Lookup:
		fr.lookup(x, st)
	case *ssa.Slice:
		fr.slice(x, st)
	case *ssa.Store:
		addr := fr.val(x.Addr)
		if la, ok := fr.lateAddr(x.Addr, x, st); ok {
			addr = la
		}
		v := fr.val(x.Val)
		fr.checkStore(x.Addr, addr, x.Val.Type(), v, x.Pos())
		st.store(addr, x.Val.Type(), v)
	case *ssa.MakeSlice:
		fr.makeSlice(x, st)
	case *ssa.MakeInterface:
		fr.vals[x] = fr.makeIface(x.X.Type(), fr.val(x.X), st)
	case *ssa.ChangeInterface:
		fr.vals[x] = fr.val(x.X)
	case *ssa.ChangeType:
		fr.vals[x] = fr.val(x.X)
	case *ssa.Convert:
		fr.vals[x] = fr.convert(x, st)
	case *ssa.SliceToArrayPointer:
		unsupp("slice to array pointer")
	case *ssa.TypeAssert:
		fr.typeAssert(x, st)
	case *ssa.Extract:
		t := fr.tups[x.Tuple]
		if t == nil {
			unsupp("extract from unknown tuple")
		}
		fr.vals[x] = t[x.Index]
	case *ssa.Call:
		res := fr.call(x.Common(), x, st, fr.reach[fr.curBlock])
		sig := x.Common().Signature()
		switch sig.Results().Len() {
		case 0:
		case 1:
			fr.vals[x] = res[0]
		default:
			fr.tups[x] = res
		}
	case *ssa.Defer:
		c := x.Common()
		rec := deferRec{d: x, guard: fr.reach[fr.curBlock]}
		if !c.IsInvoke() {
			if _, isB := c.Value.(*ssa.Builtin); !isB {
				rec.fn = fr.val(c.Value)
			}
		} else {
			rec.fn = fr.val(c.Value)
		}
		for _, a := range c.Args {
			rec.args = append(rec.args, fr.val(a))
		}
		fr.defers = append(fr.defers, rec)
	case *ssa.RunDefers:
		for i := len(fr.defers) - 1; i >= 0; i-- {
			d := fr.defers[i]
			reachB := fr.reach[fr.curBlock]
			if d.d.Block().Dominates(fr.curBlock) {
				fr.callWith(d.d.Common(), d.d, st, reachB, d.fn, d.args)
				continue
			}
			g := And(reachB, d.guard)
			if g == False {
				continue
			}
			alt := st.clone()
			fr.callWith(d.d.Common(), d.d, alt, g, d.fn, d.args)
			m := mergeStates([]*Term{d.guard, True}, []*State{alt, st})
			st.arrs = m.arrs
		}
	case *ssa.MakeClosure:
		fn := x.Fn.(*ssa.Function)
		env := ex.newObj()
		for i, b := range x.Bindings {
			st.store(FldRef(env, i, "closure$"+fn.Name()), b.Type(), fr.val(b))
		}
		fr.vals[x] = MkFunc(IntLit(int64(prog.funcID(fn))), env)
	case *ssa.Range, *ssa.Next:
		unsupp("range over string/map")
	case *ssa.MakeMap, *ssa.MapUpdate, *ssa.MakeChan, *ssa.Send, *ssa.Select, *ssa.Go:
		unsupp("%T", insn)
	default:
		unsupp("instruction %T", insn)
	}
}

// checkStore: C20 obligations for a store: target outside the global region,
// and stored references outside it too (no escape of global arrays into the heap).
func (fr *Frame) checkStore(addrV ssa.Value, addr *Term, T types.Type, v *Term, pos token.Pos) {
	if !checkFrames {
		return
	}
	ng := IntLit(int64(prog.NG))
	fr.obl("store.global", pos, ILt(ng, Acc("rid", addr)), "C20")
	for _, r := range escapeParts(v, T) {
		fr.obl("escape.global", pos, Or(Eq(r, Null), ILt(ng, Acc("rid", r))), "C20")
	}
}

var checkFrames = true

func (fr *Frame) unop(x *ssa.UnOp, st *State) *Term {
	v := fr.val(x.X)
	switch x.Op {
	case token.NOT:
		return Not(v)
	case token.SUB:
		return BVNeg(v)
	case token.XOR:
		return BVNot(v)
	case token.MUL:
		fr.obl("nil", x.Pos(), Neq(v, Null), "C13")
		T := x.Type()
		res := fr.loadFrom(x.X, v, T, st)
		return res
	}
	unsupp("unop %s", x.Op)
	return nil
}

// loadFrom: memory load with validity assumptions; loads from package-level
// variables read the initial (immutable, see C20) memory.
func (fr *Frame) loadFrom(addrV ssa.Value, addr *Term, T types.Type, st *State) *Term {
	ex := fr.ex
	isGlobal := false
	if g, ok := rootGlobal(addrV); ok {
		isGlobal = true
		_ = g
	}
	var res *Term
	if isGlobal {
		res = globalState().load(addr, T)
	} else {
		res = st.load(addr, T)
	}
	if needsValidity(T) {
		if isGlobal {
			fr.assumeG(ex.validVal(res, T, true))
		} else {
			// values read from the global region are global, others are not
			fr.assumeG(ex.validValAt(res, T, addr))
			if rootIsPre(res) {
				// memory untouched since function entry holds only objects that existed then
				for _, r := range refParts(res, T) {
					fr.assumeG(Or(Eq(r, Null), ILe(Acc("rid", r), ex.A0)))
				}
			}
		}
	}
	return res
}

// validValAt: validity where the region of the loaded value follows the region of the address.
func (ex *Exec) validValAt(v *Term, T types.Type, addr *Term) *Term {
	ng := IntLit(int64(prog.NG))
	inG := ILe(Acc("rid", addr), ng)
	a := ex.validVal(v, T, true)
	b := ex.validVal(v, T, false)
	if a == b {
		return a
	}
	return Ite(inG, a, b)
}

func needsValidity(T types.Type) bool {
	switch u := T.Underlying().(type) {
	case *types.Basic:
		return u.Kind() == types.UnsafePointer || u.Info()&types.IsString != 0
	case *types.Pointer, *types.Slice, *types.Interface, *types.Signature, *types.Map, *types.Chan:
		return true
	case *types.Struct:
		for i := 0; i < u.NumFields(); i++ {
			if needsValidity(u.Field(i).Type()) {
				return true
			}
		}
	}
	return false
}

func rootGlobal(v ssa.Value) (*ssa.Global, bool) {
	for {
		switch x := v.(type) {
		case *ssa.Global:
			// package-level variables of other packages are part of the immutable global region too
			return x, true
		case *ssa.FieldAddr:
			v = x.X
		case *ssa.IndexAddr:
			if _, isPtr := x.X.Type().Underlying().(*types.Pointer); isPtr {
				v = x.X
			} else {
				return nil, false
			}
		default:
			return nil, false
		}
	}
}

var gState *State

func globalState() *State {
	if gState == nil {
		gState = NewState("g")
	}
	return gState
}

func (fr *Frame) binop(op token.Token, a, b *Term, ta, tb types.Type, pos token.Pos) *Term {
	switch a.Sort.Kind {
	case KBool:
		switch op {
		case token.EQL:
			return Eq(a, b)
		case token.NEQ:
			return Neq(a, b)
		case token.AND, token.LAND:
			return And(a, b)
		case token.OR, token.LOR:
			return Or(a, b)
		}
	case KBV:
		sg := isSigned(ta)
		w := a.Sort.W
		switch op {
		case token.ADD:
			return BVAdd(a, b)
		case token.SUB:
			return BVSub(a, b)
		case token.MUL:
			return fr.mulOp(a, b)
		case token.QUO, token.REM:
			fr.obl("divzero", pos, Neq(b, BVLit(0, w)), "C13")
			o := map[bool]map[token.Token]string{true: {token.QUO: "bvsdiv", token.REM: "bvsrem"}, false: {token.QUO: "bvudiv", token.REM: "bvurem"}}[sg][op]
			if _, isLit := b.BVVal(); isLit || w < 64 {
				return bvDivRem(o, a, b)
			}
			// 64-bit division by a symbolic divisor: uninterpreted, with the linear facts that hold for it
			r := UF(fmt.Sprintf("%s%d", o, w), a.Sort, a, b)
			zero := BVLit(0, w)
			if sg {
				pos := And(BVSle(zero, a), BVSlt(zero, b))
				if op == token.QUO {
					fr.assumeG(Implies(pos, And(BVSle(zero, r), BVSle(r, a))))
				} else {
					fr.assumeG(Implies(pos, And(BVSle(zero, r), BVSlt(r, b))))
				}
			} else {
				if op == token.QUO {
					fr.assumeG(BVUle(r, a))
				} else {
					fr.assumeG(Implies(Neq(b, zero), BVUlt(r, b)))
				}
			}
			return r
		case token.AND:
			return BVAnd(a, b)
		case token.OR:
			return BVOr(a, b)
		case token.XOR:
			return BVXor(a, b)
		case token.AND_NOT:
			return BVAnd(a, BVNot(b))
		case token.SHL, token.SHR:
			if isSigned(tb) {
				fr.obl("shift.negative", pos, BVSle(BVLit(0, b.Sort.W), b), "C13")
			}
			// widen both to 64 bits, shift, truncate back
			var a64 *Term
			if sg {
				a64 = SExt(a, 64)
			} else {
				a64 = ZExt(a, 64)
			}
			b64 := ZExt(b, 64)
			var r *Term
			switch {
			case op == token.SHL:
				r = bvBin("bvshl", a64, b64)
			case sg:
				r = bvBin("bvashr", a64, b64)
			default:
				r = bvBin("bvlshr", a64, b64)
			}
			return Extract(w-1, 0, r)
		case token.EQL:
			return Eq(a, b)
		case token.NEQ:
			return Neq(a, b)
		case token.LSS:
			if sg {
				return BVSlt(a, b)
			}
			return BVUlt(a, b)
		case token.LEQ:
			if sg {
				return BVSle(a, b)
			}
			return BVUle(a, b)
		case token.GTR:
			if sg {
				return BVSlt(b, a)
			}
			return BVUlt(b, a)
		case token.GEQ:
			if sg {
				return BVSle(b, a)
			}
			return BVUle(b, a)
		}
	}
	if a.Sort == SStr {
		switch op {
		case token.ADD:
			r := UF("str_cat", SStr, a, b)
			fr.assumeG(Eq(StrLen(r), BVAdd(StrLen(a), StrLen(b))))
			if k, ok := strByTerm[a.id]; ok && len(k) <= 16 {
				for i := 0; i < len(k); i++ {
					fr.assumeG(Eq(UF("str_at", BV(8), r, BVLit(uint64(i), 64)), BVLit(uint64(k[i]), 8)))
				}
			}
			return r
		case token.EQL:
			return Eq(a, b)
		case token.NEQ:
			return Neq(a, b)
		case token.LSS:
			return UF("str_lt", SBool, a, b)
		case token.GTR:
			return UF("str_lt", SBool, b, a)
		case token.LEQ:
			return Not(UF("str_lt", SBool, b, a))
		case token.GEQ:
			return Not(UF("str_lt", SBool, a, b))
		}
	}
	if a.Sort == SIface {
		fr.ifaceStatic = ta
		defer func() { fr.ifaceStatic = nil }()
		switch op {
		case token.EQL:
			return fr.ifaceEq(a, b)
		case token.NEQ:
			return Not(fr.ifaceEq(a, b))
		}
	}
	switch op {
	case token.EQL:
		return fr.valueEq(a, b, ta)
	case token.NEQ:
		return Not(fr.valueEq(a, b, ta))
	}
	unsupp("binop %s on %s", op, a.Sort.S)
	return nil
}

func bvDivRem(op string, a, b *Term) *Term {
	return App(op, a.Sort, a, b)
}

// valueEq: Go == on non-interface comparable values.
func (fr *Frame) valueEq(a, b *Term, T types.Type) *Term {
	switch u := T.Underlying().(type) {
	case *types.Slice:
		// only comparison with nil is legal
		if b == NilSlice {
			return Eq(Acc("sbase", a), Null)
		}
		if a == NilSlice {
			return Eq(Acc("sbase", b), Null)
		}
	case *types.Signature:
		if b == NilFunc {
			return Eq(Acc("fid", a), IntLit(0))
		}
		if a == NilFunc {
			return Eq(Acc("fid", b), IntLit(0))
		}
	case *types.Struct:
		si := structInfo(T)
		var cs []*Term
		for i, f := range si.Fields {
			fa, fb := StructField(si, a, i), StructField(si, b, i)
			if f.Sort == SIface {
				cs = append(cs, fr.ifaceEq(fa, fb))
			} else {
				cs = append(cs, fr.valueEq(fa, fb, f.T))
			}
		}
		return And(cs...)
	case *types.Array:
		_ = u
		return Eq(a, b)
	}
	return Eq(a, b)
}

// ifaceEq: interface equality; boxed value types compare by content.
func (fr *Frame) ifaceEq(a, b *Term) *Term {
	if a == NilIface {
		return Eq(Acc("itag", b), IntLit(0))
	}
	if b == NilIface {
		return Eq(Acc("itag", a), IntLit(0))
	}
	ta, tb := Acc("itag", a), Acc("itag", b)
	ra, rb := Acc("iref", a), Acc("iref", b)
	cs := []*Term{Eq(ta, tb)}
	st := fr.curState
	var isBoxed []*Term
	var staticI *types.Interface
	if fr.ifaceStatic != nil {
		staticI, _ = fr.ifaceStatic.Underlying().(*types.Interface)
	}
	for _, it := range prog.IfaceImpls {
		if _, isPtr := it.Underlying().(*types.Pointer); isPtr {
			continue
		}
		if staticI != nil && !types.Implements(it, staticI) {
			continue // a value of the operands' static interface type cannot have this dynamic type
		}
		tag := IntLit(int64(prog.tagOf(it)))
		if isEmptyStruct(it) {
			continue // payload is null on both sides
		}
		if tv, ok := ta.IntVal(); ok {
			if tv != int64(prog.tagOf(it)) {
				continue
			}
		}
		if tv, ok := tb.IntVal(); ok {
			if tv != int64(prog.tagOf(it)) {
				continue
			}
		}
		isBoxed = append(isBoxed, Eq(ta, tag))
		if st != nil && types.Comparable(it) && flatType(it) {
			cs = append(cs, Implies(Eq(ta, tag), fr.valueEq(st.load(ra, it), st.load(rb, it), it)))
		} else {
			cs = append(cs, Implies(Eq(ta, tag), Or(Eq(ra, rb), UF("boxed_eq", SBool, ra, rb))))
		}
	}
	cs = append(cs, Or(Or(isBoxed...), Eq(ra, rb)))
	return And(cs...)
}

// flatType: values contain no interfaces/pointers to compare recursively.
func flatType(t types.Type) bool {
	switch u := t.Underlying().(type) {
	case *types.Basic:
		return true
	case *types.Struct:
		for i := 0; i < u.NumFields(); i++ {
			if !flatType(u.Field(i).Type()) {
				return false
			}
		}
		return true
	case *types.Array:
		return flatType(u.Elem())
	}
	return false
}

func isEmptyStruct(t types.Type) bool {
	s, ok := t.Underlying().(*types.Struct)
	return ok && s.NumFields() == 0
}

func (fr *Frame) makeIface(T types.Type, v *Term, st *State) *Term {
	if _, isI := T.Underlying().(*types.Interface); isI {
		return v
	}
	tag := IntLit(int64(prog.tagOf(T)))
	switch T.Underlying().(type) {
	case *types.Pointer:
		// a nil pointer in an interface is a non-nil interface
		return MkIface(tag, v)
	}
	if isEmptyStruct(T) {
		return MkIface(tag, Null)
	}
	box := fr.ex.newObj()
	st.store(box, T, v)
	return MkIface(tag, box)
}

func (fr *Frame) unbox(T types.Type, iv *Term, st *State) *Term {
	switch T.Underlying().(type) {
	case *types.Pointer:
		return Acc("iref", iv)
	}
	if isEmptyStruct(T) {
		return zeroOf(T)
	}
	return st.load(Acc("iref", iv), T)
}

func (fr *Frame) typeAssert(x *ssa.TypeAssert, st *State) {
	iv := fr.val(x.X)
	var ok, val *Term
	if it, isI := x.AssertedType.Underlying().(*types.Interface); isI {
		// interface-to-interface: ok iff dynamic type implements it
		var ds []*Term
		for _, c := range prog.IfaceImpls {
			if types.Implements(c, it) {
				ds = append(ds, Eq(Acc("itag", iv), IntLit(int64(prog.tagOf(c)))))
			}
		}
		if closedImpls(x.X.Type()) == nil {
			// open world: unknown dynamic types may implement it
			ok = And(Neq(Acc("itag", iv), IntLit(0)), Or(Or(ds...), Fresh("implements", SBool)))
		} else {
			ok = Or(ds...)
		}
		val = iv
	} else {
		ok = Eq(Acc("itag", iv), IntLit(int64(prog.tagOf(x.AssertedType))))
		val = fr.unbox(x.AssertedType, iv, st)
	}
	if x.CommaOk {
		fr.tups[x] = []*Term{Ite(ok, val, zeroOf(x.AssertedType)), ok}
		return
	}
	fr.obl("typeassert", x.Pos(), ok, "C13")
	fr.vals[x] = val
}

func (fr *Frame) indexAddr(x *ssa.IndexAddr, st *State) {
	base := fr.val(x.X)
	idx := convInt(fr.val(x.Index), x.Index.Type(), 64)
	switch u := x.X.Type().Underlying().(type) {
	case *types.Slice:
		ln := Acc("slen", base)
		fr.obl("index", x.Pos(), BVUlt(idx, ln), "C13")
		fr.vals[x] = ElemRef(Acc("sbase", base), BVAdd(Acc("soff", base), idx), typeKey(u.Elem()))
	case *types.Pointer:
		arr := u.Elem().Underlying().(*types.Array)
		fr.obl("nil", x.Pos(), Neq(base, Null), "C13")
		fr.obl("index", x.Pos(), BVUlt(idx, bv64(arr.Len())), "C13")
		fr.vals[x] = ElemRef(base, idx, typeKey(arr.Elem()))
	default:
		unsupp("indexaddr on %s", x.X.Type())
	}
}

func (fr *Frame) index(x *ssa.Index, st *State) {
	base := fr.val(x.X)
	idx := convInt(fr.val(x.Index), x.Index.Type(), 64)
	switch u := x.X.Type().Underlying().(type) {
	case *types.Array:
		fr.obl("index", x.Pos(), BVUlt(idx, bv64(u.Len())), "C13")
		fr.vals[x] = Select(base, idx)
	case *types.Basic: // string
		fr.obl("index", x.Pos(), BVUlt(idx, StrLen(base)), "C13")
		fr.vals[x] = StrAt(base, idx)
	default:
		unsupp("index on %s", x.X.Type())
	}
}

func (fr *Frame) lookup(x *ssa.Lookup, st *State) {
	if isString(x.X.Type()) {
		base := fr.val(x.X)
		idx := convInt(fr.val(x.Index), x.Index.Type(), 64)
		fr.obl("index", x.Pos(), BVUlt(idx, StrLen(base)), "C13")
		fr.vals[x] = StrAt(base, idx)
		return
	}
	unsupp("map lookup")
}

func (fr *Frame) slice(x *ssa.Slice, st *State) {
	base := fr.val(x.X)
	get := func(v ssa.Value, def *Term) *Term {
		if v == nil {
			return def
		}
		return convInt(fr.val(v), v.Type(), 64)
	}
	zero := bv64(0)
	switch u := x.X.Type().Underlying().(type) {
	case *types.Slice:
		ln, cp, off := Acc("slen", base), Acc("scap", base), Acc("soff", base)
		lo := get(x.Low, zero)
		hi := get(x.High, ln)
		mx := get(x.Max, cp)
		fr.obl("slice", x.Pos(), And(BVUle(lo, hi), BVUle(hi, mx), BVUle(mx, cp)), "C13")
		fr.vals[x] = MkSlice(Acc("sbase", base), BVAdd(off, lo), BVSub(hi, lo), BVSub(mx, lo))
		if eb, ok := u.Elem().Underlying().(*types.Basic); ok && eb.Kind() == types.Uint8 && (x.Low != nil || x.High != nil) {
			// the byte string of a sub-slice is the corresponding sub-string of the slice's byte string
			arr := st.arr(u.Elem(), Acc("sbase", base))
			whole := UF("bs_of", SBS, arr, off, ln)
			part := UF("bs_of", SBS, arr, BVAdd(off, lo), BVSub(hi, lo))
			declFun("bs_sub", "(declare-fun bs_sub (BS (_ BitVec 64) (_ BitVec 64)) BS)")
			fr.assumeG(Eq(part, App("bs_sub", SBS, whole, lo, hi)))
		}
	case *types.Basic: // string
		ln := StrLen(base)
		lo := get(x.Low, zero)
		hi := get(x.High, ln)
		fr.obl("slice", x.Pos(), And(BVUle(lo, hi), BVUle(hi, ln)), "C13")
		if x.Low == nil && x.High == nil {
			fr.vals[x] = base
			return
		}
		r := UF("str_sub", SStr, base, lo, hi)
		fr.assumeG(Eq(StrLen(r), BVSub(hi, lo)))
		fr.vals[x] = r
	case *types.Pointer:
		arr := u.Elem().Underlying().(*types.Array)
		n := bv64(arr.Len())
		fr.obl("nil", x.Pos(), Neq(base, Null), "C13")
		lo := get(x.Low, zero)
		hi := get(x.High, n)
		mx := get(x.Max, n)
		fr.obl("slice", x.Pos(), And(BVUle(lo, hi), BVUle(hi, mx), BVUle(mx, n)), "C13")
		fr.vals[x] = MkSlice(base, lo, BVSub(hi, lo), BVSub(mx, lo))
	default:
		unsupp("slice of %s", x.X.Type())
	}
}

// allocation bound for C13: a single make may not request more than this many
// elements unless the function's contract relates it to the input length.
var allocLimit = uint64(1) << 32

func (fr *Frame) makeSlice(x *ssa.MakeSlice, st *State) {
	ln := convInt(fr.val(x.Len), x.Len.Type(), 64)
	cp := convInt(fr.val(x.Cap), x.Cap.Type(), 64)
	fr.obl("makeslice", x.Pos(), And(BVSle(bv64(0), ln), BVSle(ln, cp)), "C13")
	fr.noteAlloc(x.Pos(), cp, x.Type().Underlying().(*types.Slice).Elem())
	if fr.ex.allocBound != nil {
		// C13 (memory): no single allocation exceeds the bound the contract states in terms of the inputs
		if v, ok := cp.BVVal(); !ok || v > 1<<16 {
			fr.obl("alloc", x.Pos(), BVUle(cp, fr.ex.allocBound), "C13")
		}
	}
	fr.assumeG(BVUlt(cp, lim48))
	E := x.Type().Underlying().(*types.Slice).Elem()
	base := fr.ex.newObj()
	am := st.amem(E)
	st.set(amemName(E), Store(am, base, ConstArr(am.Sort.Elem, zeroOf(E))))
	fr.vals[x] = MkSlice(base, bv64(0), ln, cp)
}

// noteAlloc records an allocation of n elements of type E (ghost allocation counter for C13).
func (fr *Frame) noteAlloc(pos token.Pos, n *Term, E types.Type) {
	if v, ok := n.BVVal(); ok && v <= 1<<20 {
		return
	}
	fr.ex.allocs = append(fr.ex.allocs, allocRec{pos: pos, n: n, guard: fr.reach[fr.curBlock], via: fr.chain, elem: E})
}

type allocRec struct {
	pos   token.Pos
	n     *Term
	guard *Term
	via   string
	elem  types.Type
}

func (fr *Frame) convert(x *ssa.Convert, st *State) *Term {
	v := fr.val(x.X)
	from, to := x.X.Type(), x.Type()
	fu, tu := from.Underlying(), to.Underlying()
	if fb, ok := fu.(*types.Basic); ok {
		if tb, ok := tu.(*types.Basic); ok {
			switch {
			case fb.Info()&types.IsInteger != 0 && tb.Info()&types.IsInteger != 0:
				w, _ := intSize(tb)
				return convInt(v, from, w)
			case fb.Info()&types.IsInteger != 0 && tb.Info()&types.IsString != 0:
				r := UF("str_of_rune", SStr, convInt(v, from, 64))
				// single byte for values < 0x80
				fr.assumeG(Implies(BVUlt(convInt(v, from, 64), bv64(0x80)),
					And(Eq(StrLen(r), bv64(1)), Eq(StrAt(r, bv64(0)), Extract(7, 0, convInt(v, from, 64))))))
				fr.assumeG(And(BVUle(bv64(1), StrLen(r)), BVUle(StrLen(r), bv64(4))))
				return r
			case fb.Info()&types.IsString != 0 && tb.Info()&types.IsString != 0:
				return v
			case fb.Kind() == types.UnsafePointer || tb.Kind() == types.UnsafePointer:
				unsupp("unsafe pointer conversion")
			}
			unsupp("convert %s -> %s", from, to)
		}
		if ts, ok := tu.(*types.Slice); ok && fb.Info()&types.IsString != 0 {
			// []byte(string): fresh array with the string's bytes
			eb, ok := ts.Elem().Underlying().(*types.Basic)
			if !ok || eb.Kind() != types.Uint8 {
				unsupp("string to []rune")
			}
			return fr.bytesOfString(v, ts.Elem(), st)
		}
	}
	if fs, ok := fu.(*types.Slice); ok {
		if tb, ok := tu.(*types.Basic); ok && tb.Info()&types.IsString != 0 {
			eb, ok := fs.Elem().Underlying().(*types.Basic)
			if !ok || eb.Kind() != types.Uint8 {
				unsupp("[]rune to string")
			}
			return fr.stringOfBytes(v, fs.Elem(), st)
		}
	}
	if _, ok := fu.(*types.Pointer); ok {
		unsupp("pointer conversion %s -> %s", from, to)
	}
	unsupp("convert %s -> %s", from, to)
	return nil
}

func (fr *Frame) bytesOfString(s *Term, E types.Type, st *State) *Term {
	ln := StrLen(s)
	base := fr.ex.newObj()
	am := st.amem(E)
	zero := ConstArr(am.Sort.Elem, zeroOf(E))
	var arr *Term
	if n, ok := fr.constStrLen(s); ok && n <= 80 {
		arr = zero
		for i := 0; i < n; i++ {
			arr = Store(arr, bv64(int64(i)), StrAt(s, bv64(int64(i))))
		}
	} else {
		arr = fr.bulkWrite(zero, bv64(0), bulkSrc{n: ln, str: s, at: func(j *Term) *Term { return StrAt(s, j) }}, ln)
	}
	st.set(amemName(E), Store(am, base, arr))
	return MkSlice(base, bv64(0), ln, ln)
}

func (fr *Frame) constStrLen(s *Term) (int, bool) {
	if s == EmptyStr {
		return 0, true
	}
	for k, t := range fr.ex.strUsed {
		if t == s {
			return len(k), true
		}
	}
	return 0, false
}

func (fr *Frame) stringOfBytes(b *Term, E types.Type, st *State) *Term {
	arr := st.arr(E, Acc("sbase", b))
	off, ln := Acc("soff", b), Acc("slen", b)
	r := UF("str_of_bytes", SStr, arr, off, ln)
	fr.assumeG(Eq(StrLen(r), ln))
	if n, ok := ln.BVVal(); ok && n <= 16 {
		for i := uint64(0); i < n; i++ {
			fr.assumeG(Eq(StrAt(r, BVLit(i, 64)), Select(arr, BVAdd(off, BVLit(i, 64)))))
		}
	}
	return r
}

func (fr *Frame) fmtPos(pos token.Pos) string { return fmt.Sprint(prog.posString(pos)) }

// rootIsPre: the term is a (nested) select on an entry-state memory array.
func rootIsPre(t *Term) bool {
	for t.Op == "select" {
		t = t.Args[0]
	}
	return t.Op == "var" && strings.HasSuffix(t.Name, "@pre")
}

// mulOp: multiplication.  A 64-bit product of two symbolic operands is kept
// as an uninterpreted (commutative) function, with (x+c)*y distributed, so that
// queries that do not depend on the product's value are not bit-blasted.
func (fr *Frame) mulOp(a, b *Term) *Term {
	w := a.Sort.W
	_, la := a.BVVal()
	_, lb := b.BVVal()
	if la || lb || w < 64 {
		return BVMul(a, b)
	}
	// distribute a small constant addend
	if a.Op == "bvadd" {
		if c, ok := a.Args[1].BVVal(); ok && signed(c, w) >= -4 && signed(c, w) <= 4 {
			return BVAdd(fr.mulOp(a.Args[0], b), BVMul(a.Args[1], b))
		}
	}
	if b.Op == "bvadd" {
		if c, ok := b.Args[1].BVVal(); ok && signed(c, w) >= -4 && signed(c, w) <= 4 {
			return BVAdd(fr.mulOp(a, b.Args[0]), BVMul(a, b.Args[1]))
		}
	}
	if a.id > b.id {
		a, b = b, a
	}
	return UF("mul64", a.Sort, a, b)
}


// lateAddr: evaluation order of assignments.  For `p.f.g = call()` go/ssa evaluates the
// pointer operands of the left-hand side (the load of p.f) before the call on the right-hand
// side, the gc compiler - whose binaries are what runs - evaluates them when the assignment is
// carried out, i.e. after the call (the language leaves the order open).  When the call can
// change p.f the two differ (processAKE: `c.ake.state, ... = c.ake.state.receiveX(c, msg)` where
// the callee replaces c.ake).  govc follows gc: a load that only feeds the address of stores in
// the same block and is separated from the store by a call is re-read at the store.
func (fr *Frame) lateAddr(v ssa.Value, store *ssa.Store, st *State) (*Term, bool) {
	fa, ok := v.(*ssa.FieldAddr)
	if !ok || fa.Block() != store.Block() {
		return nil, false
	}
	ld, ok := fa.X.(*ssa.UnOp)
	if !ok || ld.Op != token.MUL || ld.Block() != store.Block() {
		return nil, false
	}
	// the load must be used only to form addresses that are only stored through
	for _, r := range *ld.Referrers() {
		if _, isDbg := r.(*ssa.DebugRef); isDbg {
			continue
		}
		a, ok := r.(*ssa.FieldAddr)
		if !ok {
			return nil, false
		}
		for _, r2 := range *a.Referrers() {
			if _, isDbg := r2.(*ssa.DebugRef); isDbg {
				continue
			}
			if s2, ok := r2.(*ssa.Store); !ok || s2.Addr != ssa.Value(a) {
				return nil, false
			}
		}
	}
	// a call between the load and the store
	call := false
	seenLoad := false
	for _, insn := range store.Block().Instrs {
		if insn == ssa.Instruction(ld) {
			seenLoad = true
			continue
		}
		if insn == ssa.Instruction(store) {
			break
		}
		if seenLoad {
			if _, isCall := insn.(ssa.CallInstruction); isCall {
				call = true
			}
		}
	}
	if !call {
		return nil, false
	}
	if _, ok := fr.vals[ld.X]; !ok {
		return nil, false
	}
	base := st.load(fr.val(ld.X), ld.Type())
	fr.obl("nil", store.Pos(), Neq(base, Null), "C13")
	sT := fa.X.Type().Underlying().(*types.Pointer).Elem()
	return FldRef(base, fa.Field, structInfo(sT).Key), true
}
