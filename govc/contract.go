package main

// Contracts: lookup, modular calls (assert requires / havoc modifies / assume
// ensures), loop invariants (explicit and auto-derived), verification of a
// function body against its contract.

import (
	"fmt"
	"go/token"
	"go/types"
	"sort"
	"strings"

	"golang.org/x/tools/go/ssa"
)

func lookupSpec(fn *ssa.Function) *FuncSpec {
	if fn == nil {
		return nil
	}
	if inScope(fn) {
		return specs.Funcs[funcName(fn)]
	}
	// external: by full name, e.g. "bytes.HasPrefix", "(*math/big.Int).SetBytes"
	return specs.Funcs[extName(fn)]
}

func extName(fn *ssa.Function) string {
	if fn.Pkg == nil && fn.Signature.Recv() == nil {
		return fn.Name()
	}
	if recv := fn.Signature.Recv(); recv != nil {
		rt := recv.Type()
		ptr := ""
		if pt, ok := rt.(*types.Pointer); ok {
			ptr = "*"
			rt = pt.Elem()
		}
		if n, ok := rt.(*types.Named); ok && n.Obj().Pkg() != nil {
			return fmt.Sprintf("(%s%s.%s).%s", ptr, n.Obj().Pkg().Path(), n.Obj().Name(), fn.Name())
		}
		return fmt.Sprintf("(%s%s).%s", ptr, rt.String(), fn.Name())
	}
	return fn.Pkg.Pkg.Path() + "." + fn.Name()
}

func lookupIfaceSpec(IT types.Type, method string) *FuncSpec {
	n, ok := IT.(*types.Named)
	if !ok || n.Obj().Pkg() == nil {
		if ok && n.Obj().Name() == "error" {
			return specs.Ifaces["error."+method]
		}
		return nil
	}
	return specs.Ifaces[n.Obj().Pkg().Path()+"."+n.Obj().Name()+"."+method]
}

func lookupLoopSpec(fn *ssa.Function, ordinal int) *LoopSpec {
	return specs.Loops[fmt.Sprintf("%s#%d", funcName(fn), ordinal)]
}

func (sp *FuncSpec) props() []string {
	set := map[string]bool{}
	add := func(ls []string) {
		for _, l := range ls {
			if i := strings.Index(l, "."); i > 0 {
				set[l[:i]] = true
			} else {
				set[l] = true
			}
		}
	}
	for _, c := range sp.Requires {
		add(c.Labels)
	}
	for _, c := range sp.Ensures {
		add(c.Labels)
	}
	for _, c := range sp.Preserves {
		add(c.Labels)
	}
	var out []string
	for p := range set {
		out = append(out, p)
	}
	sort.Strings(out)
	return out
}

func labelProps(labels []string) []string {
	set := map[string]bool{}
	for _, l := range labels {
		if i := strings.Index(l, "."); i > 0 {
			set[l[:i]] = true
		} else {
			set[l] = true
		}
	}
	var out []string
	for p := range set {
		out = append(out, p)
	}
	sort.Strings(out)
	return out
}

// ---------- environments ----------

func paramNames(fn *ssa.Function, sp *FuncSpec) []string {
	var names []string
	for i, p := range fn.Params {
		n := p.Name()
		if sp != nil && len(sp.Params) == len(fn.Params) {
			n = sp.Params[i]
		}
		names = append(names, n)
	}
	return names
}

func resultNames(sig *types.Signature, sp *FuncSpec) []string {
	var names []string
	for i := 0; i < sig.Results().Len(); i++ {
		n := sig.Results().At(i).Name()
		if sp != nil && len(sp.Results) == sig.Results().Len() {
			n = sp.Results[i]
		}
		if n == "" || n == "_" {
			n = fmt.Sprintf("result%d", i)
		}
		names = append(names, n)
	}
	return names
}

func (ex *Exec) specEnv(fr *Frame, fn *ssa.Function, sp *FuncSpec, args []*Term, st, old *State) *Env {
	env := &Env{ex: ex, fr: fr, st: st, old: old, vars: map[string]CVal{}, bound: map[string]*Term{}}
	if fn.Pkg != nil {
		env.pkg = fn.Pkg.Pkg
	} else if fn.Object() != nil {
		env.pkg = fn.Object().Pkg()
	}
	for i, n := range paramNames(fn, sp) {
		if i < len(args) {
			env.vars[n] = CVal{T: args[i], Ty: fn.Params[i].Type()}
		}
	}
	return env
}

func (env *Env) bindResults(sig *types.Signature, sp *FuncSpec, res []*Term) {
	for i, n := range resultNames(sig, sp) {
		v := CVal{T: res[i], Ty: sig.Results().At(i).Type()}
		env.vars[n] = v
		env.vars[fmt.Sprintf("result%d", i)] = v
		if i == 0 && len(res) == 1 {
			env.vars["result"] = v
		}
	}
}

func (ex *Exec) safeEval(env *Env, f func() *Term) (t *Term, err string) {
	defer func() {
		if r := recover(); r != nil {
			if ce, ok := r.(cerr); ok {
				err = ce.msg
				return
			}
			panic(r)
		}
	}()
	return f(), ""
}

// ---------- locations (modifies) ----------

type Loc struct {
	arr   string
	isArr bool
	addr  *Term
	T     types.Type
}

func expandCells(addr *Term, T types.Type, out *[]Loc) {
	switch u := T.Underlying().(type) {
	case *types.Struct:
		si := structInfo(T)
		if p := Acc("rpath", addr); pathIsOpaque(p) && elemTypeKeys[si.Key] {
			// the struct may be an element of an array object: that array may change
			*out = append(*out, Loc{arr: amemName(T), isArr: true, addr: MkRef(Acc("rid", addr), Acc("pe_parent", p)), T: T})
			registerArrayByName(amemName(T), nil)
		}
		for i, f := range si.Fields {
			expandCells(FldRef(addr, i, si.Key), f.T, out)
		}
	case *types.Array:
		*out = append(*out, Loc{arr: amemName(u.Elem()), isArr: true, addr: addr, T: u.Elem()})
		registerArrayByName(amemName(u.Elem()), nil)
	default:
		*out = append(*out, Loc{arr: memName(T), addr: addr, T: T})
		registerArrayByName(memName(T), nil)
	}
}

func (env *Env) locsOf(e *CExpr) []Loc {
	var out []Loc
	if e.Op == "call" && e.Name == "elems" {
		s := env.force(env.eval(e.Args[0]))
		sl, ok := s.Ty.Underlying().(*types.Slice)
		if !ok {
			env.fail("elems() of non-slice")
		}
		out = append(out, Loc{arr: amemName(sl.Elem()), isArr: true, addr: Acc("sbase", s.T), T: sl.Elem()})
		registerArrayByName(amemName(sl.Elem()), nil)
		return out
	}
	if e.Op == "call" {
		if gs, ok := specs.GhostFields[e.Name]; ok {
			p := env.eval(e.Args[0])
			if !p.IsNil {
				p = env.force(p)
			}
			memArrays["G$"+e.Name] = ArrSort(SRef, ghostSort(gs))
			out = append(out, Loc{arr: "G$" + e.Name, addr: refOfVal(p)})
			return out
		}
	}
	if e.Op == "field" && e.Name == "*" {
		base := env.eval(e.Args[0])
		if pt, ok := base.Ty.Underlying().(*types.Pointer); ok {
			b := env.force(base)
			expandCells(b.T, pt.Elem(), &out)
			return out
		}
		if base.Addr == nil {
			env.fail("modifies: not an lvalue")
		}
		expandCells(base.Addr, base.Ty, &out)
		return out
	}
	v := env.eval(e)
	if v.Addr == nil {
		env.fail("modifies: %s is not an lvalue", e)
	}
	expandCells(v.Addr, v.Ty, &out)
	return out
}

func specWrites(sp *FuncSpec, fn *ssa.Function) map[string]bool {
	out := map[string]bool{}
	if sp.ModAny || !sp.HasModifies && sp.Trusted {
		if sp.ModAny {
			out["*"] = true
		}
		return out
	}
	// evaluate locations symbolically with dummy arguments to get array names
	ex := NewExec(fn)
	var args []*Term
	for i, p := range fn.Params {
		args = append(args, Var(fmt.Sprintf("dummy$%d", i), sortOf(p.Type())))
	}
	st := NewState("dummy")
	env := ex.specEnv(nil, fn, sp, args, st, st)
	locs := append([]*CExpr{}, sp.Modifies...)
	for _, gs := range sp.GhostSets {
		locs = append(locs, gs.Loc)
	}
	for _, m := range locs {
		func() {
			defer func() {
				if r := recover(); r != nil {
					out["*"] = true
				}
			}()
			for _, l := range env.locsOf(m) {
				out[l.arr] = true
			}
		}()
	}
	return out
}

// ---------- modular call ----------

func (fr *Frame) callBySpec(fn *ssa.Function, sp *FuncSpec, pos token.Pos, st *State, args []*Term) []*Term {
	return fr.callBySpecCommon(fn, sp, fn.Signature, pos, st, args, funcName(fn))
}

func (fr *Frame) callBySpecSig(sp *FuncSpec, sig *types.Signature, recvT types.Type, pos token.Pos, st *State, args []*Term, name string) []*Term {
	fr.recvT = recvT
	return fr.callBySpecCommon(nil, sp, sig, pos, st, args, name)
}

func (fr *Frame) callBySpecCommon(fn *ssa.Function, sp *FuncSpec, sig *types.Signature, pos token.Pos, st *State, args []*Term, name string) []*Term {
	ex := fr.ex
	if sp.Trusted {
		ex.trusted["assumed contract: "+name] = true
	}
	pre := st.clone()
	env := &Env{ex: ex, fr: fr, st: pre, old: pre, vars: map[string]CVal{}, bound: map[string]*Term{}}
	env.assume = func(t *Term) { fr.assumeG(t) }
	if fn != nil {
		if fn.Pkg != nil {
			env.pkg = fn.Pkg.Pkg
		}
		for i, n := range paramNames(fn, sp) {
			if i < len(args) {
				env.vars[n] = CVal{T: args[i], Ty: fn.Params[i].Type()}
			}
		}
	} else {
		// interface method: args[0] is the receiver
		names := sp.Params
		if len(names) > 0 {
			env.vars[names[0]] = CVal{T: args[0], Ty: fr.recvT}
		}
		for i := 0; i < sig.Params().Len(); i++ {
			n := sig.Params().At(i).Name()
			if i+1 < len(names) {
				n = names[i+1]
			}
			env.vars[n] = CVal{T: args[i+1], Ty: sig.Params().At(i).Type()}
		}
		env.vars["recv"] = CVal{T: args[0], Ty: fr.recvT}
	}
	props := sp.props()
	// requires
	for _, c := range sp.Requires {
		t, err := ex.safeEval(env, func() *Term { return env.boolOf(c.E) })
		if err != "" {
			contractFatal("contract error in requires of %s: %s", name, err)
		}
		ps := labelProps(c.Labels)
		if len(ps) == 0 {
			ps = append([]string{"C13"}, props...)
		}
		o := &Obl{Fn: funcName(ex.top), Kind: "requires:" + name, Pos: pos, Guard: fr.reach[fr.curBlock], Goal: t, Props: ps, Via: fr.chain, Snip: c.Src}
		if len(c.Labels) > 0 {
			o.Name = c.Labels[0] + "@" + funcName(ex.top)
		}
		ex.oblige(o)
	}
	// arguments must not be package-level arrays (Inv-G) for callees that may write
	if checkFrames && fn != nil && inScope(fn) {
		pn := paramNames(fn, sp)
		for i, a := range args {
			if i < len(fn.Params) {
				if sp.MayGlobal[pn[i]] {
					continue
				}
				for _, r := range escapeParts(a, fn.Params[i].Type()) {
					fr.oblG(fr.reach[fr.curBlock], "arg.global:"+name, pos, Or(Eq(r, Null), ILt(IntLit(int64(prog.NG)), Acc("rid", r))), "C20")
				}
			}
		}
	}
	wm := ex.watermark()
	// havoc modifies
	if sp.ModAny {
		var keep []Loc
		for _, pc := range sp.Preserves {
			_, err := ex.safeEval(env, func() *Term { keep = append(keep, env.locsOf(pc.E)...); return True })
			if err != "" {
				contractFatal("contract error in preserves of %s: %s", name, err)
			}
		}
		keep = append(keep, fr.unescapedLocals(args)...)
		for _, a := range args {
			keep = append(keep, siblingCells(a)...)
		}
		// only memory of types reachable from the parameters can change
		reach := map[string]bool{}
		seenT := map[string]bool{}
		defer func() {}()
		for i := 0; i < sig.Params().Len(); i++ {
			typeReach(sig.Params().At(i).Type(), reach, seenT)
		}
		if sig.Recv() != nil {
			typeReach(sig.Recv().Type(), reach, seenT)
		}
		if fn != nil {
			for _, p := range fn.Params {
				typeReach(p.Type(), reach, seenT)
			}
		}
		// cells of the verified function's own pointer parameters cannot be reached by a
		// callee whose parameter types cannot point to (or into) that struct type
		if top := ex.topFrame; top != nil && top.fn != nil && !reach["*"] {
			for i, p := range top.fn.Params {
				pt, ok := p.Type().Underlying().(*types.Pointer)
				if !ok {
					continue
				}
				if _, isS := pt.Elem().Underlying().(*types.Struct); !isS {
					continue
				}
				if pointsInto(seenT, pt.Elem()) {
					continue
				}
				inside := false
				for _, a := range args {
					if refInside(a, top.params[i]) {
						inside = true
					}
				}
				if !inside {
					expandCells(top.params[i], pt.Elem(), &keep)
				}
			}
		}
		// 'anything' is bounded by what the callee's body (transitively, by type) can write at all
		var bodyW map[string]bool
		if fn != nil && fn.Blocks != nil && inScope(fn) {
			bodyW = funcWrites(fn, map[*ssa.Function]bool{})
			if bodyW["*"] {
				bodyW = nil
			}
		}
		var names []string
		for n := range memArrays {
			if strictGhost[n] {
				continue // ghost state changes only through declared ghostset / modifies clauses
			}
			if bodyW != nil && !bodyW[n] {
				continue
			}
			if strings.HasPrefix(n, "G$") || reach[n] || reach["*"] {
				names = append(names, n)
			}
		}
		sort.Strings(names)
		hid := ""
		var calleeFW fieldWrites
		if fn != nil && fn.Blocks != nil && inScope(fn) {
			if fw := funcFieldWrites(fn, map[*ssa.Function]bool{}); fw["*"] == nil {
				calleeFW = fw
			}
		}
		if reach["*"] && calleeFW != nil {
			// the parameter types reach everything, but the callee's stores are known field by field
			havocCtr++
			hid = fmt.Sprintf("havoc$%d", havocCtr)
			havocFieldWrites[hid] = calleeFW
		}
		if !reach["*"] {
			havocCtr++
			hid = fmt.Sprintf("havoc$%d", havocCtr)
			var ptypes []types.Type
			if fn != nil {
				for _, p := range fn.Params {
					ptypes = append(ptypes, p.Type())
				}
			}
			havocReach[hid] = heapReachStructs(ptypes)
			if calleeFW != nil {
				havocFieldWrites[hid] = calleeFW
			}
			var das []directArg
			for i, a := range args {
				if i < len(ptypes) {
					if pt, ok := ptypes[i].Underlying().(*types.Pointer); ok {
						if _, isS := pt.Elem().Underlying().(*types.Struct); isS {
							das = append(das, directArg{a, typeKey(pt.Elem())})
							continue
						}
					}
					// non-struct-pointer arguments: treat their reach as heap reach
					seen2 := map[string]bool{}
					tmp := map[string]bool{}
					typeReach(ptypes[i], tmp, seen2)
					for k := range reachStructs(seen2) {
						havocReach[hid][k] = true
					}
				}
			}
			havocArgs[hid] = das
		}
		for _, n := range names {
			srt := memArrays[n]
			old := pre.get(n, srt)
			var nv *Term
			if hid != "" && strings.HasPrefix(n, "M$") {
				// uninterpreted function of the old array: cells of objects whose type the callee cannot reach keep their value (see Select)
				declFun(hid+"$"+n, fmt.Sprintf("(declare-fun %s (%s) %s)", quoteSym(hid+"$"+n), srt.S, srt.S))
				nv = AppN("havoc", hid+"$"+n, srt, old)
			} else {
				nv = Fresh(n+"$any", srt)
			}
			for _, l := range keep {
				if l.arr == n {
					nv = Store(nv, l.addr, Select(old, l.addr))
				}
			}
			st.set(n, nv)
		}
	}
	for _, m := range sp.Modifies {
		var locs []Loc
		_, err := ex.safeEval(env, func() *Term { locs = env.locsOf(m); return True })
		if err != "" {
			contractFatal("contract error in modifies of %s: %s", name, err)
		}
		for _, l := range locs {
			srt := memArrays[l.arr]
			if srt == nil {
				fatal("unknown memory array %s", l.arr)
			}
			arr := st.get(l.arr, srt)
			if checkFrames && !strings.HasPrefix(l.arr, "G$") {
				fr.oblG(fr.reach[fr.curBlock], "store.global:"+name, pos, Or(Eq(l.addr, Null), ILt(IntLit(int64(prog.NG)), Acc("rid", l.addr))), "C20")
			}
			st.set(l.arr, Store(arr, l.addr, Fresh(l.arr+"$h", srt.Elem)))
		}
	}
	var ghostLocs []Loc
	for _, gs := range sp.GhostSets {
		_, err := ex.safeEval(env, func() *Term { ghostLocs = append(ghostLocs, env.locsOf(gs.Loc)[0]); return True })
		if err != "" {
			contractFatal("contract error in ghostset of %s: %s", name, err)
		}
	}
	for _, l := range ghostLocs {
		srt := memArrays[l.arr]
		st.set(l.arr, Store(st.get(l.arr, srt), l.addr, Fresh(l.arr+"$g", srt.Elem)))
	}
	ex.allocN += 1 << 20 // ids the callee may have allocated
	// results
	var res []*Term
	for i, T := range resultTypes(sig) {
		v := Fresh(fmt.Sprintf("r$%s$%d", sanitize(name), i), sortOf(T))
		fr.assumeG(ex.validVal(v, T, false))
		res = append(res, v)
	}
	post := &Env{ex: ex, fr: fr, st: st, old: pre, vars: map[string]CVal{}, bound: map[string]*Term{}, pkg: env.pkg, wm: wm}
	post.assume = env.assume
	for k, v := range env.vars {
		post.vars[k] = v
	}
	post.bindResults(sig, sp, res)
	for _, c := range sp.Ensures {
		t, err := ex.safeEval(post, func() *Term { return post.boolOf(c.E) })
		if err != "" {
			contractFatal("contract error in ensures of %s: %s", name, err)
		}
		fr.assumeG(t)
	}
	for i, gs := range sp.GhostSets {
		if gs.Local {
			continue // existentially bound for callers: the location was havocked above
		}
		l := ghostLocs[i]
		var v *Term
		_, err := ex.safeEval(post, func() *Term { v = post.toGhostSort(post.eval(gs.Val), ghostSortOfArr(l.arr)); return True })
		if err != "" {
			contractFatal("contract error in ghostset of %s: %s", name, err)
		}
		fr.assumeG(Eq(Select(st.get(l.arr, memArrays[l.arr]), l.addr), v))
	}
	return res
}

// ---------- loop invariants ----------

type invT struct {
	t     *Term
	props []string
	src   string
}

func (fr *Frame) loopEnv(lc *loopCtx, st *State, over map[*ssa.Phi]*Term) *Env {
	ex := fr.ex
	env := &Env{ex: ex, fr: fr, st: st, old: fr.entrySt, vars: map[string]CVal{}, bound: map[string]*Term{}, wm: ex.A0}
	if fr.fn.Pkg != nil {
		env.pkg = fr.fn.Pkg.Pkg
	}
	env.assume = func(t *Term) { fr.ex.assume(Implies(fr.reach[lc.header], t)) }
	for i, p := range fr.fn.Params {
		env.vars[p.Name()] = CVal{T: fr.params[i], Ty: p.Type()}
		env.vars[p.Name()+"0"] = CVal{T: fr.params[i], Ty: p.Type()}
	}
	// source-level variables visible at the header through DebugRefs in dominating blocks
	for _, b := range fr.fn.Blocks {
		if !(b.Dominates(lc.header)) || b == lc.header {
			continue
		}
		for _, insn := range b.Instrs {
			if d, ok := insn.(*ssa.DebugRef); ok && !d.IsAddr {
				if id := d.Expr; id != nil {
					if t, ok := fr.vals[d.X]; ok {
						if obj := d.Object(); obj != nil {
							env.vars[obj.Name()] = CVal{T: t, Ty: d.X.Type()}
						}
					} else if c, ok := d.X.(*ssa.Const); ok {
						if obj := d.Object(); obj != nil {
							env.vars[obj.Name()] = CVal{T: ex.constVal(c), Ty: c.Type()}
						}
					}
				}
			}
			if a, ok := insn.(*ssa.Alloc); ok && a.Comment != "" {
				if t, ok := fr.vals[a]; ok {
					env.vars[a.Comment] = CVal{Addr: t, Ty: a.Type().Underlying().(*types.Pointer).Elem()}
				}
			}
		}
	}
	for _, insn := range lc.header.Instrs {
		phi, ok := insn.(*ssa.Phi)
		if !ok {
			break
		}
		v := fr.vals[phi]
		if over != nil {
			v = over[phi]
		}
		env.vars[phiName(phi)] = CVal{T: v, Ty: phi.Type()}
	}
	return env
}

func (fr *Frame) loopInvariants(lc *loopCtx, st *State, over map[*ssa.Phi]*Term) []invT {
	var out []invT
	// auto-derived counter invariants
	if lc.spec == nil || !lc.spec.NoAuto {
		for _, a := range fr.autoInvariants(lc, over) {
			out = append(out, invT{t: a, props: []string{"C13"}, src: "auto:" + trunc(a.String(), 40)})
		}
	}
	if lc.spec != nil {
		env := fr.loopEnv(lc, st, over)
		for _, c := range lc.spec.Invariants {
			t, err := fr.ex.safeEval(env, func() *Term { return env.boolOf(c.E) })
			if err != "" {
				contractFatal("contract error in invariant of %s #%d: %s", funcName(fr.fn), lc.ordinal, err)
			}
			ps := labelProps(c.Labels)
			if len(ps) == 0 {
				ps = []string{"C13"}
			}
			out = append(out, invT{t: t, props: ps, src: c.Src})
		}
	}
	return out
}

type counterPat struct {
	phi   *ssa.Phi
	init  ssa.Value
	up    bool
	bound ssa.Value // loop-invariant bound in header condition, may be nil
	viaNext bool    // condition is on phi+1 (range loops)
	strict bool
}

func (fr *Frame) counterPatterns(lc *loopCtx) []counterPat {
	var out []counterPat
	h := lc.header
	for _, insn := range h.Instrs {
		phi, ok := insn.(*ssa.Phi)
		if !ok {
			break
		}
		if !isInteger(phi.Type()) || !isSigned(phi.Type()) || sortOf(phi.Type()).W != 64 {
			continue
		}
		var init ssa.Value
		var step *ssa.BinOp
		okPat := true
		for i, e := range phi.Edges {
			pred := h.Preds[i]
			if lc.body[pred] {
				bo, isB := e.(*ssa.BinOp)
				if !isB || bo.X != phi || (bo.Op != token.ADD && bo.Op != token.SUB) {
					if e != phi {
						okPat = false
					}
					continue
				}
				c, isC := bo.Y.(*ssa.Const)
				if !isC || c.Int64() != 1 {
					okPat = false
					continue
				}
				if step != nil && step != bo {
					okPat = false
				}
				step = bo
			} else {
				if init != nil && init != e {
					okPat = false
				}
				init = e
			}
		}
		if !okPat || init == nil || step == nil {
			continue
		}
		cp := counterPat{phi: phi, init: init, up: step.Op == token.ADD}
		// header condition
		if iff, ok := h.Instrs[len(h.Instrs)-1].(*ssa.If); ok {
			if cmp, ok := iff.Cond.(*ssa.BinOp); ok && lc.body[h.Succs[0]] {
				outside := func(v ssa.Value) bool {
					if i, ok := v.(ssa.Instruction); ok {
						return !lc.body[i.Block()]
					}
					return true
				}
				switch {
				case cp.up && cmp.Op == token.LSS && cmp.X == phi && outside(cmp.Y):
					cp.bound = cmp.Y
				case cp.up && cmp.Op == token.LSS && cmp.X == ssa.Value(step) && outside(cmp.Y) && step.Block() == h:
					cp.bound, cp.viaNext = cmp.Y, true
				case !cp.up && cmp.Op == token.GEQ && cmp.X == phi:
					if c, ok := cmp.Y.(*ssa.Const); ok && c.Int64() == 0 {
						cp.bound = cmp.Y
					}
				}
			}
		}
		out = append(out, cp)
	}
	return out
}

func (fr *Frame) autoInvariants(lc *loopCtx, over map[*ssa.Phi]*Term) []*Term {
	var out []*Term
	for _, cp := range fr.counterPatterns(lc) {
		v := fr.vals[cp.phi]
		if over != nil {
			v = over[cp.phi]
		}
		init, ok := fr.tryVal(cp.init)
		if !ok {
			continue
		}
		if cp.up {
			out = append(out, BVSle(init, v))
			if cp.bound != nil {
				if b, ok := fr.tryVal(cp.bound); ok {
					if cp.viaNext {
						out = append(out, Or(BVSlt(v, b), Eq(v, init)))
					} else {
						out = append(out, Or(BVSle(v, b), Eq(v, init)))
					}
				}
			}
		} else {
			out = append(out, BVSle(v, init))
			if cp.bound != nil {
				out = append(out, Or(BVSle(bv64(-1), v), Eq(v, init)))
			}
		}
	}
	return out
}

func (fr *Frame) loopDecreases(lc *loopCtx, st *State, over map[*ssa.Phi]*Term) *Term {
	if lc.spec != nil && lc.spec.Decreases != nil {
		env := fr.loopEnv(lc, st, over)
		var t *Term
		_, err := fr.ex.safeEval(env, func() *Term {
			v := env.eval(lc.spec.Decreases)
			if !v.Untyped {
				if fv := env.force(v); fv.T.Sort == SInt {
					t = fv.T
					return True
				}
			}
			t = env.intOf(lc.spec.Decreases)
			return True
		})
		if err != "" {
			contractFatal("contract error in decreases of %s #%d: %s", funcName(fr.fn), lc.ordinal, err)
		}
		return t
	}
	for _, cp := range fr.counterPatterns(lc) {
		if cp.bound == nil {
			continue
		}
		v := fr.vals[cp.phi]
		if over != nil {
			v = over[cp.phi]
		}
		if cp.up {
			if b, ok := fr.tryVal(cp.bound); ok {
				return BVSub(b, v)
			}
		} else {
			return BVAdd(v, bv64(1))
		}
	}
	return nil
}

// unescapedLocals: cells of address-taken locals of the current activation
// that cannot be reached by a callee: their address is only ever used for
// direct field/element access, loads and stores in this function, and is not
// among the call's arguments.
func (fr *Frame) unescapedLocals(args []*Term) []Loc {
	var out []Loc
	if fr.fn == nil {
		return nil
	}
	for _, b := range fr.fn.Blocks {
		for _, insn := range b.Instrs {
			a, ok := insn.(*ssa.Alloc)
			if !ok {
				continue
			}
			ref, ok := fr.vals[a]
			if !ok {
				continue
			}
			if allocEscapes(a) {
				continue
			}
			isArg := false
			for _, x := range args {
				if x == ref {
					isArg = true
				}
			}
			if isArg {
				continue
			}
			expandCells(ref, a.Type().Underlying().(*types.Pointer).Elem(), &out)
		}
	}
	return out
}

var escapeMemo = map[*ssa.Alloc]bool{}

func allocEscapes(a *ssa.Alloc) bool {
	if v, ok := escapeMemo[a]; ok {
		return v
	}
	esc := false
	var visit func(v ssa.Value)
	seen := map[ssa.Value]bool{}
	visit = func(v ssa.Value) {
		if seen[v] || esc {
			return
		}
		seen[v] = true
		refs := v.Referrers()
		if refs == nil {
			return
		}
		for _, r := range *refs {
			switch x := r.(type) {
			case *ssa.FieldAddr:
				visit(x)
			case *ssa.IndexAddr:
				visit(x)
			case *ssa.UnOp:
				// load: the loaded value is not the address
			case *ssa.Store:
				if x.Val == v {
					esc = true
				}
			case *ssa.DebugRef:
			default:
				esc = true
			}
		}
	}
	visit(a)
	escapeMemo[a] = esc
	return esc
}

// typeReach: names of the memory arrays that hold cells reachable from a value
// of type T by field selection, indexing and pointer dereference.
func typeReach(T types.Type, out map[string]bool, seen map[string]bool) {
	k := typeKey(T)
	if seen[k] {
		return
	}
	seen[k] = true
	switch u := T.Underlying().(type) {
	case *types.Pointer:
		cellReach(u.Elem(), out, seen)
	case *types.Slice:
		out[amemName(u.Elem())] = true
		registerArrayByName(amemName(u.Elem()), nil)
		cellReach(u.Elem(), out, seen)
	case *types.Struct:
		for i := 0; i < u.NumFields(); i++ {
			typeReach(u.Field(i).Type(), out, seen)
		}
	case *types.Array:
		typeReach(u.Elem(), out, seen)
	case *types.Interface:
		if impls := closedImpls(T); impls != nil {
			for _, it := range impls {
				if _, isP := it.Underlying().(*types.Pointer); isP {
					typeReach(it, out, seen)
				} else {
					cellReach(it, out, seen)
				}
			}
			return
		}
		out["*"] = true // dynamic types: unknown
	case *types.Signature, *types.Map, *types.Chan:
		out["*"] = true // captured state: unknown
	}
}

// cellReach: a cell of type T is reachable (and so is everything reachable from its value).
func cellReach(T types.Type, out map[string]bool, seen map[string]bool) {
	switch u := T.Underlying().(type) {
	case *types.Struct:
		if elemTypeKeys[typeKey(T)] {
			out[amemName(T)] = true
			registerArrayByName(amemName(T), nil)
		}
		for i := 0; i < u.NumFields(); i++ {
			cellReach(u.Field(i).Type(), out, seen)
		}
	case *types.Array:
		out[amemName(u.Elem())] = true
		registerArrayByName(amemName(u.Elem()), nil)
		cellReach(u.Elem(), out, seen)
	default:
		out[memName(T)] = true
		registerArrayByName(memName(T), nil)
		typeReach(T, out, seen)
	}
}

// siblingCells: for an interior pointer &x.f (syntactically a field address),
// the cells of x outside f: a callee cannot reach them through the pointer.
func siblingCells(a *Term) []Loc {
	var out []Loc
	for a.Op == "mkref" && a.Args[1].Op == "pfld" {
		p := a.Args[1]
		si := structByKey[p.Name]
		parent := MkRef(a.Args[0], p.Args[0])
		if si == nil {
			break
		}
		k, _ := p.Args[1].IntVal()
		for i, f := range si.Fields {
			if int64(i) != k {
				expandCells(FldRef(parent, i, si.Key), f.T, &out)
			}
		}
		a = parent
	}
	return out
}

// pointsInto: some pointer type reachable from the callee's parameters (keys of
// seen are the visited types) has a pointee that occurs in the by-value layout of S.
func pointsInto(seen map[string]bool, S types.Type) bool {
	layout := map[string]bool{}
	var lay func(T types.Type)
	lay = func(T types.Type) {
		layout[typeKey(T)] = true
		switch u := T.Underlying().(type) {
		case *types.Struct:
			for i := 0; i < u.NumFields(); i++ {
				lay(u.Field(i).Type())
			}
		case *types.Array:
			lay(u.Elem())
		}
	}
	lay(S)
	for k := range seen {
		T := keyToType[k]
		if T == nil {
			continue
		}
		if pt, ok := T.Underlying().(*types.Pointer); ok {
			if layout[typeKey(pt.Elem())] {
				return true
			}
		}
	}
	return false
}

// refInside: a is syntactically x or an address inside the object x.
func refInside(a, x *Term) bool {
	for {
		if a == x {
			return true
		}
		if a.Op == "mkref" && (a.Args[1].Op == "pfld" || a.Args[1].Op == "pelem") {
			a = MkRef(a.Args[0], a.Args[1].Args[0])
			continue
		}
		if a.Op == "mkref" && a.Args[0].Op == "rid" && a.Args[1].Op == "rpath" && a.Args[0].Args[0] == a.Args[1].Args[0] {
			a = a.Args[0].Args[0]
			continue
		}
		return false
	}
}

var havocCtr int
var havocReach = map[string]map[string]bool{}

// reachStructs: keys of struct types whose cells a callee with the visited
// parameter types may reach: pointees of reachable pointers, elements of
// reachable slices, and everything nested by value in them.
func reachStructs(seen map[string]bool) map[string]bool {
	out := map[string]bool{}
	var lay func(T types.Type)
	lay = func(T types.Type) {
		switch u := T.Underlying().(type) {
		case *types.Struct:
			out[typeKey(T)] = true
			for i := 0; i < u.NumFields(); i++ {
				lay(u.Field(i).Type())
			}
		case *types.Array:
			lay(u.Elem())
		}
	}
	for k := range seen {
		T := keyToType[k]
		if T == nil {
			continue
		}
		switch u := T.Underlying().(type) {
		case *types.Pointer:
			lay(u.Elem())
			if _, isS := u.Elem().Underlying().(*types.Struct); !isS {
				out["*"+typeKey(u.Elem())] = true // pointer to a scalar cell of this type
			}
		case *types.Slice:
			lay(u.Elem())
		case *types.Struct, *types.Array:
			lay(T)
		}
	}
	return out
}

// pathStructKeys: the struct types an address lies in (innermost to outermost),
// if the address is syntactically a field path; nil if unknown.
func pathStructKeys(addr *Term) []string {
	if addr.Op != "mkref" {
		return nil
	}
	p := addr.Args[1]
	var keys []string
	for p.Op == "pfld" || p.Op == "pelem" {
		if p.Op == "pfld" {
			if p.Name == "" || structByKey[p.Name] == nil {
				return nil
			}
			keys = append(keys, p.Name)
		} else {
			return nil
		}
		p = p.Args[0]
	}
	if p.Op != "proot" && p.Op != "rpath" {
		return nil
	}
	return keys
}

type directArg struct {
	t   *Term
	key string
}

var havocArgs = map[string][]directArg{}

// heapReachStructs: struct types reachable from the parameters through at
// least one pointer/slice/interface *stored in memory* (the pointees of the
// arguments themselves are handled as direct arguments).
func heapReachStructs(ptypes []types.Type) map[string]bool {
	seen := map[string]bool{}
	tmp := map[string]bool{}
	var fields func(T types.Type)
	fields = func(T types.Type) {
		switch u := T.Underlying().(type) {
		case *types.Struct:
			for i := 0; i < u.NumFields(); i++ {
				fields(u.Field(i).Type())
			}
		case *types.Array:
			fields(u.Elem())
		default:
			typeReach(T, tmp, seen)
		}
	}
	for _, pt := range ptypes {
		if p, ok := pt.Underlying().(*types.Pointer); ok {
			if _, isS := p.Elem().Underlying().(*types.Struct); isS {
				fields(p.Elem())
				continue
			}
		}
		typeReach(pt, tmp, seen)
	}
	out := reachStructs(seen)
	if tmp["*"] {
		out["*"] = true
	}
	return out
}

func layoutContains(outer, inner string) bool {
	T := keyToType[outer]
	if T == nil {
		return true
	}
	found := false
	var lay func(T types.Type)
	lay = func(T types.Type) {
		if typeKey(T) == inner {
			found = true
		}
		switch u := T.Underlying().(type) {
		case *types.Struct:
			for i := 0; i < u.NumFields(); i++ {
				lay(u.Field(i).Type())
			}
		case *types.Array:
			lay(u.Elem())
		}
	}
	lay(T)
	return found
}

// cellOutsideArg: the cell at addr is certainly not inside the object the direct argument points to.
func cellOutsideArg(addr *Term, keys []string, da directArg) bool {
	if refInside(addr, da.t) {
		return false
	}
	outerA := keys[len(keys)-1]
	outerT := da.key
	if ak := pathStructKeys(da.t); len(ak) > 0 {
		outerT = ak[len(ak)-1]
	}
	if outerA != outerT {
		return !layoutContains(outerA, outerT) && !layoutContains(outerT, outerA)
	}
	// same outermost type: disjoint if the same root object and the field paths diverge
	ra, pa := splitRoot(addr)
	rt, ptn := splitRoot(da.t)
	if ra == nil || rt == nil || ra != rt {
		return false
	}
	// pa, ptn are field index lists from the root; arg subtree = prefix ptn
	for i := 0; i < len(ptn); i++ {
		if i >= len(pa) {
			return false
		}
		if pa[i] != ptn[i] {
			return true
		}
	}
	return false
}

// splitRoot: root term and field index path (outermost first) of a syntactic field address.
func splitRoot(a *Term) (*Term, []int64) {
	if a.Op != "mkref" {
		return nil, nil
	}
	var idx []int64
	p := a.Args[1]
	for p.Op == "pfld" {
		k, ok := p.Args[1].IntVal()
		if !ok {
			return nil, nil
		}
		idx = append([]int64{k}, idx...)
		p = p.Args[0]
	}
	if p.Op == "proot" {
		return a.Args[0], idx
	}
	if p.Op == "rpath" {
		return p.Args[0], idx
	}
	return nil, nil
}
