package main

// Whole-package scan for run-time writes to package-level state (C20).
//
// The per-function global-region obligations only see functions under contract.  This scan
// covers every function of the packages in scope, contract or not, opaque or not: a store whose
// address is (a field or element of) a package-level variable, a map update or delete on a map
// read from a package-level variable, and passing the address of a package-level variable to a
// call, outside package initialisation, each become one obligation that can only be discharged
// by being listed below as benign.  On the unchanged tree the scan produces no obligation that
// fails; any new one belongs to new code and is reported by the quick tier (kind store.global).

import (
	"fmt"
	"go/token"
	"go/types"
	"strings"

	"golang.org/x/tools/go/ssa"
)

// benignGlobalUse: run-time uses of package-level variables that are synchronised by construction.
var benignGlobalUse = map[string]string{
	"notifiedLockFailure": "sync.Once guarding a one-time warning (memory_lock.go)",
}

func scanRootGlobal(v ssa.Value, depth int) *ssa.Global {
	if depth > 8 {
		return nil
	}
	switch x := v.(type) {
	case *ssa.Global:
		return x
	case *ssa.FieldAddr:
		return scanRootGlobal(x.X, depth+1)
	case *ssa.IndexAddr:
		return scanRootGlobal(x.X, depth+1)
	case *ssa.UnOp:
		if x.Op == token.MUL {
			// value loaded from a global (map, pointer): writes through it reach shared state
			if g, ok := x.X.(*ssa.Global); ok {
				switch g.Type().(*types.Pointer).Elem().Underlying().(type) {
				case *types.Map, *types.Pointer:
					return g
				}
			}
		}
	case *ssa.ChangeType:
		return scanRootGlobal(x.X, depth+1)
	}
	return nil
}

func verifyGlobalWrites() *FuncResult {
	res := &FuncResult{Name: "package-scan"}
	add := func(fn *ssa.Function, what string, g *ssa.Global, pos token.Pos) {
		if g == nil || g.Pkg == nil || !inScopePkg(g.Pkg) {
			return
		}
		if _, ok := benignGlobalUse[g.Name()]; ok {
			return
		}
		name := fmt.Sprintf("C20.store.global.scan.%s[%s %s]", funcName(fn), what, g.Name())
		res.Obls = append(res.Obls, &Obl{Fn: "package-scan", Kind: "store.global", Guard: True, Goal: False, Props: []string{"C20"}, Snip: what + " " + g.Name(), Name: name, Pos: pos})
	}
	initOnly := initOnlyFuncs()
	for _, fn := range prog.allFuncsWithAnon() {
		if fn.Blocks == nil || initOnly[fn] {
			continue
		}
		// files that are out of scope for the functional contracts (debug.go) are still scanned: a write to
		// package-level state there is shared between conversations like any other
		if why := excluded(fn); why != "" && !strings.HasPrefix(funcName(fn), "initTLVHandlers") && !strings.HasSuffix(prog.Fset.Position(fn.Pos()).Filename, "debug.go") {
			continue
		}
		if strings.HasSuffix(prog.Fset.Position(fn.Pos()).Filename, "_test.go") {
			continue
		}
		for _, b := range fn.Blocks {
			for _, insn := range b.Instrs {
				switch x := insn.(type) {
				case *ssa.Store:
					add(fn, "store to", scanRootGlobal(x.Addr, 0), x.Pos())
				case *ssa.MapUpdate:
					add(fn, "map update of", scanRootGlobal(x.Map, 0), x.Pos())
				case ssa.CallInstruction:
					c := x.Common()
					if b, ok := c.Value.(*ssa.Builtin); ok && b.Name() == "delete" && len(c.Args) > 0 {
						add(fn, "map delete on", scanRootGlobal(c.Args[0], 0), x.Pos())
					}
				}
			}
		}
	}
	for i, o := range res.Obls {
		o.Index = i
		o.Labeled = true
	}
	return res
}

func inScopePkg(p *ssa.Package) bool {
	for _, sp := range prog.SPkgs {
		if sp == p {
			return true
		}
	}
	return false
}


// initOnlyFuncs: package initialisers and the functions that are (statically) called only from
// them: their writes to package-level state happen before any conversation exists.
func initOnlyFuncs() map[*ssa.Function]bool {
	callers := map[*ssa.Function][]*ssa.Function{}
	var all []*ssa.Function
	for _, fn := range prog.allFuncsWithAnon() {
		all = append(all, fn)
		for _, b := range fn.Blocks {
			for _, insn := range b.Instrs {
				// static calls and closures created here (a closure runs on behalf of its creator)
				if ci, ok := insn.(ssa.CallInstruction); ok {
					if callee := ci.Common().StaticCallee(); callee != nil {
						callers[callee] = append(callers[callee], fn)
					}
				}
				if mc, ok := insn.(*ssa.MakeClosure); ok {
					if cf, ok := mc.Fn.(*ssa.Function); ok {
						callers[cf] = append(callers[cf], fn)
					}
				}
			}
		}
	}
	isInit := func(fn *ssa.Function) bool {
		return fn.Name() == "init" || strings.HasPrefix(fn.Name(), "init#")
	}
	out := map[*ssa.Function]bool{}
	for _, fn := range all {
		if isInit(fn) {
			out[fn] = true
		}
	}
	for changed := true; changed; {
		changed = false
		for _, fn := range all {
			if out[fn] || len(callers[fn]) == 0 {
				continue
			}
			// a function whose address is taken may run at any time
			ok := true
			for _, c := range callers[fn] {
				if !out[c] {
					ok = false
				}
			}
			if ok && !addressTaken(fn) {
				out[fn] = true
				changed = true
			}
		}
	}
	return out
}

func addressTaken(fn *ssa.Function) bool {
	if fn.Referrers() == nil {
		// package-level function: referrers are not tracked; look for uses as a value
		for _, g := range prog.allFuncsWithAnon() {
			for _, b := range g.Blocks {
				for _, insn := range b.Instrs {
					var ops []*ssa.Value
					for _, op := range insn.Operands(ops) {
						if op == nil || *op != ssa.Value(fn) {
							continue
						}
						if ci, ok := insn.(ssa.CallInstruction); ok && ci.Common().Value == ssa.Value(fn) {
							continue
						}
						return true
					}
				}
			}
		}
	}
	return false
}
