package main

// Discharging obligations: VC construction from the event list and a race of
// z3-new, z3 and cvc5 per query.

import (
	"bytes"
	"context"
	"fmt"
	"os"
	"os/exec"
	"strings"
	"sync"
	"time"
)

type SolveResult struct {
	Status string // unsat | sat | unknown
	Solver string
	TimeS  float64
	Model  string
	Raw    string
}

var termMu sync.Mutex
var solverTimeout = 10 // seconds per solver per query
var solverSem = make(chan struct{}, 8)
var keepVC = ""

type solverDef struct {
	name string
	args func(to int) []string
}

var solvers = []solverDef{
	{"z3-new", func(to int) []string { return []string{"z3-new", "-in", "-smt2", fmt.Sprintf("-T:%d", to)} }},
	{"z3", func(to int) []string { return []string{"z3", "-in", "-smt2", fmt.Sprintf("-T:%d", to)} }},
	{"cvc5", func(to int) []string {
		return []string{"cvc5", "--lang=smt2", fmt.Sprintf("--tlimit=%d", to*1000), "--produce-models"}
	}},
}

func buildScript(asserts []*Term, wantModel bool) string {
	body := PrintQuery(asserts)
	var sb strings.Builder
	sb.WriteString("(set-option :produce-models true)\n(set-logic ALL)\n")
	sb.WriteString(Prelude(""))
	sb.WriteString(body)
	sb.WriteString("(check-sat)\n")
	if wantModel {
		sb.WriteString("(get-model)\n")
	}
	return sb.String()
}

func runSolvers(script string, tag string) SolveResult {
	solverSem <- struct{}{}
	defer func() { <-solverSem }()
	if keepVC != "" {
		os.MkdirAll(keepVC, 0o755)
		os.WriteFile(fmt.Sprintf("%s/%s.smt2", keepVC, sanitize(tag)), []byte(script), 0o644)
	}
	ctx, cancel := context.WithTimeout(context.Background(), time.Duration(solverTimeout+3)*time.Second)
	defer cancel()
	type one struct {
		r SolveResult
	}
	ch := make(chan SolveResult, len(solvers))
	var wg sync.WaitGroup
	start := time.Now()
	for _, s := range solvers {
		wg.Add(1)
		go func(s solverDef) {
			defer wg.Done()
			a := s.args(solverTimeout)
			cmd := exec.CommandContext(ctx, a[0], a[1:]...)
			cmd.Stdin = strings.NewReader(script)
			var out bytes.Buffer
			cmd.Stdout = &out
			cmd.Stderr = &out
			_ = cmd.Run()
			txt := out.String()
			first := ""
			rest := txt
			for {
				parts := strings.SplitN(rest, "\n", 2)
				first = strings.TrimSpace(parts[0])
				if (strings.HasPrefix(first, "WARNING") || first == "") && len(parts) == 2 {
					rest = parts[1]
					continue
				}
				break
			}
			r := SolveResult{Solver: s.name, TimeS: time.Since(start).Seconds(), Raw: txt}
			switch first {
			case "unsat":
				r.Status = "unsat"
			case "sat":
				r.Status = "sat"
				if i := strings.Index(txt, "\n"); i >= 0 {
					r.Model = txt[i+1:]
				}
			default:
				r.Status = "unknown"
			}
			ch <- r
		}(s)
	}
	go func() { wg.Wait(); close(ch) }()
	var last SolveResult
	last.Status = "unknown"
	var raws []string
	for r := range ch {
		if r.Status == "unsat" || r.Status == "sat" {
			cancel()
			return r
		}
		raws = append(raws, r.Solver+": "+trunc(strings.TrimSpace(r.Raw), 200))
		last = r
	}
	last.Solver = "all"
	last.Raw = strings.Join(raws, " | ")
	last.TimeS = time.Since(start).Seconds()
	return last
}

// prefixAssumptions: everything that may be assumed when proving obligation k.
func prefixAssumptions(res *FuncResult, upto *Obl) []*Term {
	var out []*Term
	out = append(out, res.Axioms...)
	for _, e := range res.Events {
		if e.Obl == upto {
			break
		}
		if e.Assume != nil {
			out = append(out, e.Assume)
		} else if e.Obl != nil && e.Obl.Status != "trivial" && mayAssume(e.Obl) {
			out = append(out, Implies(e.Obl.Guard, e.Obl.Goal))
		}
	}
	return out
}

// batchFormula: the weakest-precondition style formula for all selected
// obligations of a function (others are assumed in place).
func batchFormula(res *FuncResult, sel func(*Obl) bool) (*Term, int) {
	acc := True
	n := 0
	for i := len(res.Events) - 1; i >= 0; i-- {
		e := res.Events[i]
		if e.Assume != nil {
			acc = Implies(e.Assume, acc)
			continue
		}
		o := e.Obl
		if o.Status == "trivial" {
			continue
		}
		g := Implies(o.Guard, o.Goal)
		if sel(o) {
			n++
			acc = And(g, Implies(g, acc))
		} else if mayAssume(o) {
			acc = Implies(g, acc)
		}
	}
	return acc, n
}

// discharge proves the selected obligations of one function.
func discharge(res *FuncResult, sel func(*Obl) bool, individually bool) {
	var todo []*Obl
	for _, o := range res.Obls {
		if !sel(o) {
			continue
		}
		if o.Status == "trivial" {
			o.Solver = "simplifier"
			continue
		}
		todo = append(todo, o)
	}
	if len(todo) == 0 {
		return
	}
	var qf []*Obl
	termMu.Lock()
	for _, o := range todo {
		if !hasQuant(o.Goal) {
			qf = append(qf, o)
		}
	}
	termMu.Unlock()
	if !individually && len(qf) > 1 {
		qset := map[*Obl]bool{}
		for _, o := range qf {
			qset[o] = true
		}
		termMu.Lock()
		f, _ := batchFormula(res, func(o *Obl) bool { return qset[o] })
		asserts := append([]*Term{}, res.Axioms...)
		asserts = append(asserts, Not(f))
		script := buildScript(asserts, false)
		termMu.Unlock()
		r := runSolvers(script, res.Name+"$batch")
		if r.Status == "unsat" {
			for _, o := range qf {
				o.Status, o.Solver, o.TimeS = "unsat", r.Solver+"(batch)", r.TimeS/float64(len(qf))
			}
			var rest []*Obl
			for _, o := range todo {
				if !qset[o] {
					rest = append(rest, o)
				}
			}
			todo = rest
		}
	}
	var wg sync.WaitGroup
	for _, o := range todo {
		wg.Add(1)
		go func(o *Obl) {
			defer wg.Done()
			termMu.Lock()
			asserts := prefixAssumptions(res, o)
			asserts = append(asserts, And(o.Guard, Not(o.Goal)))
			script := buildScript(asserts, true)
			termMu.Unlock()
			r := runSolvers(script, res.Name+"$"+o.Name)
			o.Status, o.Solver, o.TimeS, o.Model = r.Status, r.Solver, r.TimeS, r.Model
			if r.Status == "unknown" {
				o.Model = r.Raw
			}
		}(o)
	}
	wg.Wait()
}

var quantMemo = map[int]bool{}

func hasQuant(t *Term) bool {
	if v, ok := quantMemo[t.id]; ok {
		return v
	}
	r := t.Op == "forall" || t.Op == "exists"
	if !r {
		for _, a := range t.Args {
			if hasQuant(a) {
				r = true
				break
			}
		}
	}
	quantMemo[t.id] = r
	return r
}

// provenElsewhere: names of obligations in any committed baseline list.  An
// obligation that is not being proved in this query may be assumed only if it
// is proved by some check (its own property's); unproven ("attempted")
// obligations are never assumed, so a failure that is not reported cannot make
// later obligations vacuous.
var provenElsewhere map[string]bool

func mayAssume(o *Obl) bool {
	if provenElsewhere == nil {
		return true // sweep / baseline generation: classic assert-then-assume
	}
	return provenElsewhere[o.Name]
}
