package main

// Term AST for SMT-LIB generation: hash-consed, with simplifying smart
// constructors.  Everything the VC generator produces is a *Term; the printer
// emits one (define-fun ..) per shared non-leaf node so that VC size stays
// linear in the size of the DAG.

import (
	"fmt"
	"math/big"
	"sort"
	"strings"
)

type SortKind int

const (
	KBool SortKind = iota
	KInt
	KBV
	KArray
	KData
	KUnint
)

type Sort struct {
	S    string
	Kind SortKind
	W    int
	Idx  *Sort
	Elem *Sort
}

var sortTab = map[string]*Sort{}

func mkSort(s string, k SortKind) *Sort {
	if x, ok := sortTab[s]; ok {
		return x
	}
	x := &Sort{S: s, Kind: k}
	sortTab[s] = x
	return x
}

var (
	SBool  = mkSort("Bool", KBool)
	SInt   = mkSort("Int", KInt)
	SPath  = mkSort("Path", KData)
	SRef   = mkSort("Ref", KData)
	SSlice = mkSort("Slice", KData)
	SIface = mkSort("Iface", KData)
	SFunc  = mkSort("Func", KData)
	SStr   = mkSort("Str", KUnint)
	SBS    = mkSort("BS", KUnint)
	SF64   = mkSort("F64", KUnint)
)

func BV(n int) *Sort {
	s := mkSort(fmt.Sprintf("(_ BitVec %d)", n), KBV)
	s.W = n
	return s
}

func ArrSort(idx, elem *Sort) *Sort {
	s := mkSort(fmt.Sprintf("(Array %s %s)", idx.S, elem.S), KArray)
	s.Idx, s.Elem = idx, elem
	return s
}

type Term struct {
	Op    string // "var" | "lit" | smt symbol | "forall" | "exists"
	Name  string // var name / literal text / annotation (not printed for pfld/pelem)
	Args  []*Term
	Sort  *Sort
	id    int
	bound bool   // mentions a bound variable
	Binds string // for quantifiers: binder list text
	Pat   []*Term
}

var termTab = map[string]*Term{}
var termCount int

func intern(op, name string, sort *Sort, args ...*Term) *Term {
	var sb strings.Builder
	sb.WriteString(op)
	sb.WriteByte('|')
	sb.WriteString(name)
	sb.WriteByte('|')
	sb.WriteString(sort.S)
	for _, a := range args {
		fmt.Fprintf(&sb, ",%d", a.id)
	}
	k := sb.String()
	if t, ok := termTab[k]; ok {
		return t
	}
	termCount++
	t := &Term{Op: op, Name: name, Args: args, Sort: sort, id: termCount}
	for _, a := range args {
		if a.bound {
			t.bound = true
		}
	}
	termTab[k] = t
	return t
}

func Var(name string, s *Sort) *Term { return intern("var", name, s) }
func BoundVar(name string, s *Sort) *Term {
	t := intern("bvar", name, s)
	t.bound = true
	return t
}

var freshCtr = map[string]int{}

func Fresh(prefix string, s *Sort) *Term {
	prefix = sanitize(prefix)
	freshCtr[prefix]++
	return Var(fmt.Sprintf("%s!%d", prefix, freshCtr[prefix]), s)
}

func sanitize(s string) string {
	var b strings.Builder
	for _, r := range s {
		switch {
		case r >= 'a' && r <= 'z', r >= 'A' && r <= 'Z', r >= '0' && r <= '9', r == '_', r == '.', r == '!', r == '$', r == '@':
			b.WriteRune(r)
		default:
			b.WriteByte('_')
		}
	}
	return b.String()
}

var (
	True  = intern("lit", "true", SBool)
	False = intern("lit", "false", SBool)
)

func BoolLit(b bool) *Term {
	if b {
		return True
	}
	return False
}

func IntLit(n int64) *Term {
	if n < 0 {
		return intern("lit", fmt.Sprintf("(- %d)", -n), SInt)
	}
	return intern("lit", fmt.Sprintf("%d", n), SInt)
}

func BVLit(v uint64, w int) *Term {
	if w < 64 {
		v &= (uint64(1) << uint(w)) - 1
	}
	if w%4 == 0 {
		return intern("lit", fmt.Sprintf("#x%0*x", w/4, v), BV(w))
	}
	return intern("lit", fmt.Sprintf("#b%0*b", w, v), BV(w))
}

func BVLitBig(v *big.Int, w int) *Term {
	m := new(big.Int).Lsh(big.NewInt(1), uint(w))
	x := new(big.Int).Mod(v, m)
	if w <= 64 {
		return BVLit(x.Uint64(), w)
	}
	return intern("lit", fmt.Sprintf("(_ bv%s %d)", x.String(), w), BV(w))
}

func (t *Term) IsLit() bool { return t.Op == "lit" }

// BVVal returns the value of a BV literal of width <= 64.
func (t *Term) BVVal() (uint64, bool) {
	if t.Op != "lit" || t.Sort.Kind != KBV || t.Sort.W > 64 {
		return 0, false
	}
	s := t.Name
	var v uint64
	if strings.HasPrefix(s, "#x") {
		fmt.Sscanf(s[2:], "%x", &v)
		return v, true
	}
	if strings.HasPrefix(s, "#b") {
		fmt.Sscanf(s[2:], "%b", &v)
		return v, true
	}
	return 0, false
}

func (t *Term) IntVal() (int64, bool) {
	if t.Op != "lit" || t.Sort != SInt {
		return 0, false
	}
	var v int64
	if strings.HasPrefix(t.Name, "(- ") {
		fmt.Sscanf(t.Name[3:], "%d", &v)
		return -v, true
	}
	fmt.Sscanf(t.Name, "%d", &v)
	return v, true
}

func signed(v uint64, w int) int64 {
	if w == 64 {
		return int64(v)
	}
	if v&(uint64(1)<<uint(w-1)) != 0 {
		return int64(v) - int64(uint64(1)<<uint(w))
	}
	return int64(v)
}

func App(op string, s *Sort, args ...*Term) *Term { return intern(op, "", s, args...) }

// AppN: application with a non-printed annotation in Name.
func AppN(op, note string, s *Sort, args ...*Term) *Term { return intern(op, note, s, args...) }

// ---------- boolean ----------

func Not(a *Term) *Term {
	switch {
	case a == True:
		return False
	case a == False:
		return True
	case a.Op == "not":
		return a.Args[0]
	}
	return App("not", SBool, a)
}

func And(xs ...*Term) *Term {
	var out []*Term
	seen := map[int]bool{}
	for _, x := range xs {
		if x == False {
			return False
		}
		if x == True || seen[x.id] {
			continue
		}
		if x.Op == "and" {
			for _, y := range x.Args {
				if !seen[y.id] {
					seen[y.id] = true
					out = append(out, y)
				}
			}
			continue
		}
		seen[x.id] = true
		out = append(out, x)
	}
	for _, x := range out {
		if x.Op == "not" && seen[x.Args[0].id] {
			return False
		}
	}
	switch len(out) {
	case 0:
		return True
	case 1:
		return out[0]
	}
	return App("and", SBool, out...)
}

func Or(xs ...*Term) *Term {
	var out []*Term
	seen := map[int]bool{}
	for _, x := range xs {
		if x == True {
			return True
		}
		if x == False || seen[x.id] {
			continue
		}
		if x.Op == "or" {
			for _, y := range x.Args {
				if !seen[y.id] {
					seen[y.id] = true
					out = append(out, y)
				}
			}
			continue
		}
		seen[x.id] = true
		out = append(out, x)
	}
	for _, x := range out {
		if x.Op == "not" && seen[x.Args[0].id] {
			return True
		}
	}
	switch len(out) {
	case 0:
		return False
	case 1:
		return out[0]
	}
	return App("or", SBool, out...)
}

func Implies(a, b *Term) *Term {
	switch {
	case a == True:
		return b
	case a == False, b == True:
		return True
	case b == False:
		return Not(a)
	case a == b:
		return True
	}
	return App("=>", SBool, a, b)
}

func Iff(a, b *Term) *Term { return Eq(a, b) }

func Ite(c, a, b *Term) *Term {
	switch {
	case c == True:
		return a
	case c == False:
		return b
	case a == b:
		return a
	}
	if a.Sort != b.Sort {
		panic(fmt.Sprintf("ite sort mismatch %s vs %s", a.Sort.S, b.Sort.S))
	}
	if a.Sort == SBool {
		if a == True && b == False {
			return c
		}
		if a == False && b == True {
			return Not(c)
		}
		if a == True {
			return Or(c, b)
		}
		if b == False {
			return And(c, a)
		}
		if a == False {
			return And(Not(c), b)
		}
		if b == True {
			return Or(Not(c), a)
		}
	}
	if c.Op == "not" {
		return Ite(c.Args[0], b, a)
	}
	// ite(c, x, ite(c, y, z)) = ite(c, x, z)
	if b.Op == "ite" && b.Args[0] == c {
		return Ite(c, a, b.Args[2])
	}
	if a.Op == "ite" && a.Args[0] == c {
		return Ite(c, a.Args[1], b)
	}
	return App("ite", a.Sort, c, a, b)
}

// ctorOf reports the datatype constructor at the head of t, if syntactically known.
func ctorOf(t *Term) string {
	switch t.Op {
	case "null", "mkref", "proot", "pfld", "pelem", "mkslice", "mkiface", "mkfunc":
		return t.Op
	}
	if strings.HasPrefix(t.Op, "mk$") {
		return t.Op
	}
	return ""
}

// definitelyDistinct: syntactic check that two terms can never be equal.
func definitelyDistinct(a, b *Term) bool {
	if a == b {
		return false
	}
	if a.Op == "lit" && b.Op == "lit" {
		return true
	}
	ca, cb := ctorOf(a), ctorOf(b)
	if ca != "" && cb != "" {
		if ca != cb {
			return true
		}
		for i := range a.Args {
			if definitelyDistinct(a.Args[i], b.Args[i]) {
				return true
			}
		}
	}
	// a freshly allocated object (id A0+k, k>=1) differs from every reference that existed at entry
	if (isFreshRef(a) && isOldRef(b)) || (isFreshRef(b) && isOldRef(a)) {
		return true
	}
	// distinct allocation ids: A0 + k1 vs A0 + k2
	if a.Op == "+" && b.Op == "+" && len(a.Args) == 2 && len(b.Args) == 2 && a.Args[0] == b.Args[0] {
		return definitelyDistinct(a.Args[1], b.Args[1])
	}
	return false
}

func Eq(a, b *Term) *Term {
	if a == b {
		return True
	}
	if a.Sort != b.Sort {
		panic(fmt.Sprintf("eq sort mismatch %s vs %s (%s , %s)", a.Sort.S, b.Sort.S, a.String(), b.String()))
	}
	if definitelyDistinct(a, b) {
		return False
	}
	if a.Sort == SBool {
		switch {
		case a == True:
			return b
		case b == True:
			return a
		case a == False:
			return Not(b)
		case b == False:
			return Not(a)
		}
	}
	// constructor = constructor: componentwise
	if ca := ctorOf(a); ca != "" && ca == ctorOf(b) && len(a.Args) > 0 {
		var cs []*Term
		for i := range a.Args {
			cs = append(cs, Eq(a.Args[i], b.Args[i]))
		}
		return And(cs...)
	}
	if a.id > b.id {
		a, b = b, a
	}
	return App("=", SBool, a, b)
}

func Neq(a, b *Term) *Term { return Not(Eq(a, b)) }

// ---------- integers (mathematical) ----------

func IAdd(a, b *Term) *Term {
	if x, ok := a.IntVal(); ok {
		if y, ok := b.IntVal(); ok {
			return IntLit(x + y)
		}
	}
	return App("+", SInt, a, b)
}
func ILe(a, b *Term) *Term { return App("<=", SBool, a, b) }
func ILt(a, b *Term) *Term { return App("<", SBool, a, b) }

// ---------- bit-vectors ----------

func bvBin(op string, a, b *Term) *Term {
	if a.Sort != b.Sort {
		panic(fmt.Sprintf("%s sort mismatch %s vs %s", op, a.Sort.S, b.Sort.S))
	}
	w := a.Sort.W
	if x, ok := a.BVVal(); ok {
		if y, ok := b.BVVal(); ok && w <= 64 {
			switch op {
			case "bvadd":
				return BVLit(x+y, w)
			case "bvsub":
				return BVLit(x-y, w)
			case "bvmul":
				return BVLit(x*y, w)
			case "bvand":
				return BVLit(x&y, w)
			case "bvor":
				return BVLit(x|y, w)
			case "bvxor":
				return BVLit(x^y, w)
			}
		}
	}
	if y, ok := b.BVVal(); ok && y == 0 {
		switch op {
		case "bvadd", "bvsub", "bvor", "bvxor", "bvshl", "bvlshr", "bvashr":
			return a
		case "bvmul", "bvand":
			return b
		}
	}
	if x, ok := a.BVVal(); ok && x == 0 {
		switch op {
		case "bvadd", "bvor", "bvxor":
			return b
		case "bvmul", "bvand":
			return a
		}
	}
	// (x + c1) + c2, (x + c1) - c2
	if (op == "bvadd" || op == "bvsub") && a.Op == "bvadd" {
		if c2, ok := b.BVVal(); ok {
			if c1, ok := a.Args[1].BVVal(); ok {
				if op == "bvadd" {
					return bvBin("bvadd", a.Args[0], BVLit(c1+c2, w))
				}
				return bvBin("bvadd", a.Args[0], BVLit(c1-c2, w))
			}
		}
	}
	if op == "bvsub" && a == b {
		return BVLit(0, w)
	}
	return App(op, a.Sort, a, b)
}

func BVAdd(a, b *Term) *Term { return bvBin("bvadd", a, b) }
func BVSub(a, b *Term) *Term { return bvBin("bvsub", a, b) }
func BVMul(a, b *Term) *Term { return bvBin("bvmul", a, b) }
func BVAnd(a, b *Term) *Term { return bvBin("bvand", a, b) }
func BVOr(a, b *Term) *Term  { return bvBin("bvor", a, b) }
func BVXor(a, b *Term) *Term { return bvBin("bvxor", a, b) }
func BVNot(a *Term) *Term {
	if x, ok := a.BVVal(); ok {
		return BVLit(^x, a.Sort.W)
	}
	return App("bvnot", a.Sort, a)
}
func BVNeg(a *Term) *Term {
	if x, ok := a.BVVal(); ok {
		return BVLit(-x, a.Sort.W)
	}
	return App("bvneg", a.Sort, a)
}

func bvCmp(op string, a, b *Term) *Term {
	if a.Sort != b.Sort {
		panic(fmt.Sprintf("%s sort mismatch %s vs %s", op, a.Sort.S, b.Sort.S))
	}
	w := a.Sort.W
	if x, ok := a.BVVal(); ok {
		if y, ok := b.BVVal(); ok {
			sx, sy := signed(x, w), signed(y, w)
			switch op {
			case "bvult":
				return BoolLit(x < y)
			case "bvule":
				return BoolLit(x <= y)
			case "bvslt":
				return BoolLit(sx < sy)
			case "bvsle":
				return BoolLit(sx <= sy)
			}
		}
	}
	if a == b {
		return BoolLit(op == "bvule" || op == "bvsle")
	}
	if op == "bvule" {
		if x, ok := a.BVVal(); ok && x == 0 {
			return True
		}
	}
	if op == "bvult" {
		if y, ok := b.BVVal(); ok && y == 0 {
			return False
		}
	}
	return App(op, SBool, a, b)
}

func BVUlt(a, b *Term) *Term { return bvCmp("bvult", a, b) }
func BVUle(a, b *Term) *Term { return bvCmp("bvule", a, b) }
func BVSlt(a, b *Term) *Term { return bvCmp("bvslt", a, b) }
func BVSle(a, b *Term) *Term { return bvCmp("bvsle", a, b) }

func Extract(hi, lo int, a *Term) *Term {
	if lo == 0 && hi == a.Sort.W-1 {
		return a
	}
	if x, ok := a.BVVal(); ok {
		return BVLit(x>>uint(lo), hi-lo+1)
	}
	if a.Op == "concat" {
		// concat(h, l)
		lw := a.Args[1].Sort.W
		if hi < lw {
			return Extract(hi, lo, a.Args[1])
		}
		if lo >= lw {
			return Extract(hi-lw, lo-lw, a.Args[0])
		}
	}
	if a.Op == "zext" && hi < a.Args[0].Sort.W {
		return Extract(hi, lo, a.Args[0])
	}
	if a.Op == "sext" && hi < a.Args[0].Sort.W {
		return Extract(hi, lo, a.Args[0])
	}
	return AppN("extract", fmt.Sprintf("%d %d", hi, lo), BV(hi-lo+1), a)
}

func ZExt(a *Term, to int) *Term {
	w := a.Sort.W
	if to == w {
		return a
	}
	if x, ok := a.BVVal(); ok {
		return BVLit(x, to)
	}
	return AppN("zext", fmt.Sprintf("%d", to-w), BV(to), a)
}

func SExt(a *Term, to int) *Term {
	w := a.Sort.W
	if to == w {
		return a
	}
	if x, ok := a.BVVal(); ok {
		return BVLit(uint64(signed(x, w)), to)
	}
	return AppN("sext", fmt.Sprintf("%d", to-w), BV(to), a)
}

func Concat(hi, lo *Term) *Term {
	if x, ok := hi.BVVal(); ok {
		if y, ok := lo.BVVal(); ok && hi.Sort.W+lo.Sort.W <= 64 {
			return BVLit(x<<uint(lo.Sort.W)|y, hi.Sort.W+lo.Sort.W)
		}
	}
	return App("concat", BV(hi.Sort.W+lo.Sort.W), hi, lo)
}

// ---------- arrays ----------

func Select(a, i *Term) *Term {
	if a.Sort.Kind != KArray {
		panic("select on non-array " + a.Sort.S + " " + a.String())
	}
	if i.Sort != a.Sort.Idx {
		panic(fmt.Sprintf("select index sort %s, want %s", i.Sort.S, a.Sort.Idx.S))
	}
	if v, ok := knownSel[[2]int{a.id, i.id}]; ok {
		return v
	}
	for {
		if a.Op == "store" {
			if a.Args[1] == i {
				return a.Args[2]
			}
			if definitelyDistinct(a.Args[1], i) {
				a = a.Args[0]
				continue
			}
		}
		if a.Op == "constarr" {
			return a.Args[0]
		}
		break
	}
	if a.Op == "havoc" && selectThroughHavoc != nil && selectThroughHavoc(a, i) {
		return Select(a.Args[0], i)
	}
	if a.Op == "bulk" {
		// bulk(dst, at, src, soff, cnt): dst with cnt elements of src (from soff) written at [at, at+cnt)
		dst, at, src, soff, cnt := a.Args[0], a.Args[1], a.Args[2], a.Args[3], a.Args[4]
		in := And(BVUle(at, i), BVUlt(i, BVAdd(at, cnt)))
		return Ite(in, Select(src, BVAdd(soff, BVSub(i, at))), Select(dst, i))
	}
	if a.Op == "bulkstr" {
		dst, at, str, cnt := a.Args[0], a.Args[1], a.Args[2], a.Args[3]
		in := And(BVUle(at, i), BVUlt(i, BVAdd(at, cnt)))
		return Ite(in, App("str_at", BV(8), str, BVSub(i, at)), Select(dst, i))
	}
	if a.Op == "store" && (a.Sort.Idx.Kind == KBV || a.Sort.Elem.Kind == KArray) {
		// eliminate stores on element arrays eagerly (read-over-write)
		return Ite(Eq(a.Args[1], i), a.Args[2], Select(a.Args[0], i))
	}
	if a.Op == "ite" {
		// push select through ite when both sides simplify
		k := [2]int{a.id, i.id}
		if r, ok := selMemo[k]; ok {
			return r
		}
		l, r := Select(a.Args[1], i), Select(a.Args[2], i)
		var res *Term
		if l == r {
			res = l
		} else if (l.Op != "select" || l.Args[0] != a.Args[1]) || (r.Op != "select" || r.Args[0] != a.Args[2]) {
			res = Ite(a.Args[0], l, r)
		} else {
			res = App("select", a.Sort.Elem, a, i)
		}
		selMemo[k] = res
		return res
	}
	return App("select", a.Sort.Elem, a, i)
}

func Store(a, i, v *Term) *Term {
	if a.Sort.Kind != KArray {
		panic("store on non-array")
	}
	if i.Sort != a.Sort.Idx || v.Sort != a.Sort.Elem {
		panic(fmt.Sprintf("store sorts idx %s val %s into %s", i.Sort.S, v.Sort.S, a.Sort.S))
	}
	if a.Op == "store" && a.Args[1] == i {
		a = a.Args[0]
	}
	if v.Op == "select" && v.Args[0] == a && v.Args[1] == i {
		return a
	}
	return App("store", a.Sort, a, i, v)
}

var selMemo = map[[2]int]*Term{}

// selectThroughHavoc decides whether a cell certainly keeps its value across a havoc (set in contract.go)
var selectThroughHavoc func(h, addr *Term) bool

// knownSel: values of immutable global-region cells established by the init probe.
var knownSel = map[[2]int]*Term{}

func setKnown(arr, idx, v *Term) {
	knownSel[[2]int{arr.id, idx.id}] = v
}

func ConstArr(s *Sort, v *Term) *Term { return App("constarr", s, v) }

// ---------- quantifiers ----------

func Forall(vars []*Term, body *Term, pats ...*Term) *Term {
	if body == True {
		return True
	}
	var sb strings.Builder
	sb.WriteString("(")
	for _, v := range vars {
		fmt.Fprintf(&sb, "(%s %s)", v.Name, v.Sort.S)
	}
	sb.WriteString(")")
	t := intern("forall", sb.String(), SBool, body)
	t.Binds = sb.String()
	t.Pat = pats
	// a closed quantifier does not mention bound vars from outside
	t.bound = false
	for _, fv := range freeBound(body) {
		found := false
		for _, v := range vars {
			if v == fv {
				found = true
			}
		}
		if !found {
			t.bound = true
		}
	}
	return t
}

func freeBound(t *Term) []*Term {
	seen := map[int]bool{}
	var out []*Term
	var walk func(t *Term, bound map[string]bool)
	walk = func(t *Term, bound map[string]bool) {
		if !t.bound && t.Op != "forall" && t.Op != "exists" {
			return
		}
		if t.Op == "bvar" {
			if !bound[t.Name] && !seen[t.id] {
				seen[t.id] = true
				out = append(out, t)
			}
			return
		}
		for _, a := range t.Args {
			walk(a, bound)
		}
	}
	walk(t, map[string]bool{})
	return out
}

// ---------- printing ----------

func (t *Term) String() string {
	var sb strings.Builder
	t.write(&sb, nil)
	return sb.String()
}

func (t *Term) write(sb *strings.Builder, names map[int]string) {
	if names != nil {
		if n, ok := names[t.id]; ok {
			sb.WriteString(n)
			return
		}
	}
	switch t.Op {
	case "var", "bvar":
		sb.WriteString(quoteSym(t.Name))
		return
	case "lit":
		sb.WriteString(t.Name)
		return
	case "forall", "exists":
		fmt.Fprintf(sb, "(%s %s ", t.Op, t.Binds)
		if len(t.Pat) > 0 {
			sb.WriteString("(! ")
		}
		t.Args[0].write(sb, names)
		if len(t.Pat) > 0 {
			sb.WriteString(" :pattern (")
			for i, p := range t.Pat {
				if i > 0 {
					sb.WriteByte(' ')
				}
				p.write(sb, names)
			}
			sb.WriteString("))")
		}
		sb.WriteString(")")
		return
	case "constarr":
		fmt.Fprintf(sb, "((as const %s) ", t.Sort.S)
		t.Args[0].write(sb, nil)
		sb.WriteString(")")
		return
	case "extract":
		fmt.Fprintf(sb, "((_ extract %s) ", t.Name)
		t.Args[0].write(sb, names)
		sb.WriteString(")")
		return
	case "zext":
		fmt.Fprintf(sb, "((_ zero_extend %s) ", t.Name)
		t.Args[0].write(sb, names)
		sb.WriteString(")")
		return
	case "sext":
		fmt.Fprintf(sb, "((_ sign_extend %s) ", t.Name)
		t.Args[0].write(sb, names)
		sb.WriteString(")")
		return
	case "havoc":
		fmt.Fprintf(sb, "(%s ", quoteSym(t.Name))
		t.Args[0].write(sb, names)
		sb.WriteString(")")
		return
	case "bulk", "bulkstr":
		fmt.Fprintf(sb, "(%s", quoteSym(t.Op+"$"+t.Name))
		for _, a := range t.Args {
			sb.WriteByte(' ')
			a.write(sb, names)
		}
		sb.WriteString(")")
		return
	case "is":
		fmt.Fprintf(sb, "((_ is %s) ", t.Name)
		t.Args[0].write(sb, names)
		sb.WriteString(")")
		return
	}
	if len(t.Args) == 0 {
		sb.WriteString(quoteSym(t.Op))
		return
	}
	sb.WriteByte('(')
	sb.WriteString(quoteSym(t.Op))
	for _, a := range t.Args {
		sb.WriteByte(' ')
		a.write(sb, names)
	}
	sb.WriteByte(')')
}

func quoteSym(s string) string {
	for _, r := range s {
		if !(r >= 'a' && r <= 'z' || r >= 'A' && r <= 'Z' || r >= '0' && r <= '9' || strings.ContainsRune("_.!$@+-*/<=>%?~&^", r)) {
			return "|" + s + "|"
		}
	}
	return s
}

// IsCtor tester
func IsCtor(ctor string, t *Term) *Term {
	if c := ctorOf(t); c != "" {
		return BoolLit(c == ctor)
	}
	return AppN("is", ctor, SBool, t)
}

// Script builds an SMT-LIB script: declarations for every free variable and
// define-funs for shared nodes reachable from the given roots.
type Script struct {
	sb     strings.Builder
	names  map[int]string
	vars   map[string]*Sort
	varOrd []string
}

func collect(roots []*Term) (order []*Term, refs map[int]int) {
	refs = map[int]int{}
	seen := map[int]bool{}
	var walk func(t *Term)
	walk = func(t *Term) {
		refs[t.id]++
		if seen[t.id] {
			return
		}
		seen[t.id] = true
		for _, a := range t.Args {
			walk(a)
		}
		for _, p := range t.Pat {
			walk(p)
		}
		order = append(order, t)
	}
	for _, r := range roots {
		walk(r)
	}
	return
}

// PrintQuery renders assertions as an SMT-LIB script body (declarations of
// free constants, shared definitions, asserts).  Prelude (sorts, datatypes,
// uninterpreted functions) is supplied by the caller.
func PrintQuery(asserts []*Term) string {
	order, refs := collect(asserts)
	var sb strings.Builder
	names := map[int]string{}
	// declare variables (sorted for determinism)
	var vs []*Term
	for _, t := range order {
		if t.Op == "var" {
			vs = append(vs, t)
		}
	}
	sort.Slice(vs, func(i, j int) bool { return vs[i].Name < vs[j].Name })
	for _, v := range vs {
		fmt.Fprintf(&sb, "(declare-const %s %s)\n", quoteSym(v.Name), v.Sort.S)
	}
	for _, t := range order {
		if len(t.Args) == 0 || t.bound {
			continue
		}
		// name nodes that are shared or big
		if refs[t.id] > 1 || t.Op == "store" || t.Op == "ite" {
			n := fmt.Sprintf("$t%d", t.id)
			var b strings.Builder
			t.write(&b, names)
			fmt.Fprintf(&sb, "(define-fun %s () %s %s)\n", n, t.Sort.S, b.String())
			names[t.id] = n
		}
	}
	for _, a := range asserts {
		var b strings.Builder
		a.write(&b, names)
		fmt.Fprintf(&sb, "(assert %s)\n", b.String())
	}
	return sb.String()
}

func isFreshID(id *Term) bool {
	if id.Op == "+" && len(id.Args) == 2 && id.Args[0].Op == "var" && id.Args[0].Name == "A0" {
		if k, ok := id.Args[1].IntVal(); ok && k >= 1 {
			return true
		}
	}
	return false
}

func isFreshRef(t *Term) bool {
	return t.Op == "mkref" && isFreshID(t.Args[0])
}

// isOldRef: syntactically a reference that existed at function entry:
// parameters, components of parameters, values read from entry-state memory,
// global-region objects; or a field/element address inside such an object.
func isOldRef(t *Term) bool {
	switch t.Op {
	case "var":
		return strings.HasPrefix(t.Name, "p$") || strings.HasPrefix(t.Name, "fv$")
	case "sbase", "iref", "fenv":
		return isOldVal(t.Args[0])
	case "select":
		return isOldVal(t)
	case "mkref":
		id := t.Args[0]
		if id.Op == "rid" {
			return isOldRef(id.Args[0])
		}
		if v, ok := id.IntVal(); ok && v > 0 {
			return true // global region
		}
	}
	return false
}

func isOldVal(t *Term) bool {
	for {
		switch t.Op {
		case "var":
			return strings.HasPrefix(t.Name, "p$") || strings.HasPrefix(t.Name, "fv$") || strings.HasSuffix(t.Name, "@pre") || strings.HasSuffix(t.Name, "@g")
		case "select":
			t = t.Args[0]
			continue
		}
		if strings.HasPrefix(t.Op, "f$") && len(t.Args) == 1 { // struct field accessor
			t = t.Args[0]
			continue
		}
		return false
	}
}
