package main

// The manifest-facing check: per property, verify the functions in scope,
// discharge the obligations mapped to the property, compare with the committed
// baseline list and the known-findings file, write evidence, print VIOLATION /
// KNOWN-FINDING lines.

import (
	"encoding/json"
	"flag"
	"fmt"
	"os"
	"path/filepath"
	"sort"
	"strconv"
	"strings"
	"sync"
	"time"

	"golang.org/x/tools/go/ssa"
)

type knownFinding struct {
	Prop, Obligation, Text string
	Fixed                  bool
}

func loadKnownFindings() []knownFinding {
	var out []knownFinding
	b, err := os.ReadFile("/verif/known_findings.txt")
	if err != nil {
		return nil
	}
	for _, ln := range strings.Split(string(b), "\n") {
		ln = strings.TrimSpace(ln)
		if ln == "" || strings.HasPrefix(ln, "#") {
			continue
		}
		kf := knownFinding{Text: ln}
		if strings.HasPrefix(ln, "fixed:") {
			kf.Fixed = true
		} else if !strings.HasPrefix(ln, "finding:") {
			continue
		}
		for _, f := range strings.Fields(ln) {
			if strings.HasPrefix(f, "property=") {
				kf.Prop = strings.TrimPrefix(f, "property=")
			}
		}
		if i := strings.Index(ln, "obligation="); i >= 0 {
			rest := ln[i+len("obligation="):]
			// obligation names may contain spaces inside [...]; terminated by " witness=" or end
			if j := strings.Index(rest, " witness="); j >= 0 {
				rest = rest[:j]
			}
			kf.Obligation = strings.TrimSpace(rest)
		}
		out = append(out, kf)
	}
	return out
}

func loadBaseline(prop string) map[string]bool {
	b, err := os.ReadFile("/verif/baseline/" + prop + ".txt")
	if err != nil {
		return nil
	}
	out := map[string]bool{}
	for _, ln := range strings.Split(string(b), "\n") {
		ln = strings.TrimSpace(ln)
		if ln != "" && !strings.HasPrefix(ln, "#") {
			out[ln] = true
		}
	}
	return out
}

// scopeFuncs: functions verified for a property: every function with an
// explicit contract, plus functions named in `sweep` directives.
func scopeFuncs() []*ssa.Function {
	var out []*ssa.Function
	for _, fn := range prog.allFuncsWithAnon() {
		if excluded(fn) != "" {
			continue
		}
		n := funcName(fn)
		if sp := specs.Funcs[n]; sp != nil {
			out = append(out, fn)
			continue
		}
		if sweepSet[n] {
			out = append(out, fn)
		}
	}
	return out
}

var sweepSet = map[string]bool{}

type evidenceObl struct {
	Name   string  `json:"name"`
	Status string  `json:"status"`
	Solver string  `json:"solver"`
	TimeS  float64 `json:"time_s"`
	Func   string  `json:"function"`
	Where  string  `json:"where,omitempty"`
}

func cmdCheck(args []string) {
	fs := flag.NewFlagSet("check", flag.ExitOnError)
	prop := fs.String("property", "", "property id")
	tier := fs.String("tier", "quick", "quick|thorough")
	repo := fs.String("repo", "", "repository directory")
	mkBaseline := fs.Bool("write-baseline", false, "write the baseline list from this run")
	evidenceDir := fs.String("evidence", "/verif/evidence", "evidence directory")
	fs.Parse(args)
	if t := os.Getenv("VERIF_TIER"); t != "" && *tier == "" {
		*tier = t
	}
	seed := 0
	if s := os.Getenv("VERIF_SEED"); s != "" {
		seed, _ = strconv.Atoi(s)
	}
	if *tier == "thorough" {
		solverTimeout = 60
	} else {
		solverTimeout = 10
	}
	start := time.Now()
	setup(*repo)
	recoverContractErrors = true
	pset := map[string]bool{*prop: true}
	baseline := loadBaseline(*prop)
	everSeen := loadBaseline(*prop + ".all")
	if !*mkBaseline {
		provenElsewhere = map[string]bool{}
		if files, err := filepath.Glob("/verif/baseline/C[0-9][0-9].txt"); err == nil {
			for _, f := range files {
				for n := range loadBaseline(strings.TrimSuffix(filepath.Base(f), ".txt")) {
					provenElsewhere[n] = true
				}
			}
		}
	}
	known := loadKnownFindings()
	isNewFrame := func(o *Obl) bool {
		// an obligation that did not exist when the baseline was taken (new code) and
		// whose failure does not depend on any abstraction: the global-region checks
		if everSeen == nil || everSeen[o.Name] {
			return false
		}
		// ... and the frame of a function with an explicit `modifies` clause: a memory array the
		// function did not touch before has no frame obligation on the unchanged tree; writing to
		// pre-existing cells of it now is a breach of the clause that was proved
		// ... and an allocation the function did not make before, in a function whose contract bounds
		// every single allocation by its inputs (`allocates`)
		return strings.HasPrefix(o.Kind, "store.global") || strings.HasPrefix(o.Kind, "escape.global") || strings.HasPrefix(o.Kind, "arg.global") || o.Kind == "frame" || o.Kind == "alloc"
	}
	// a further instance (#k) of a labelled contract clause all of whose instances on the
	// unchanged tree are in the baseline: the clause is the unit of proof, so a failing new
	// instance (e.g. an additional loop exit) is a failure of that clause
	isNewInstance := func(o *Obl) bool {
		if everSeen == nil || everSeen[o.Name] || !o.Labeled {
			return false
		}
		i := strings.LastIndex(o.Name, "#")
		return i > 0 && baseline[o.Name[:i]]
	}
	// obligations that did not exist when the baseline was taken (changed or new code): safety
	// obligations and labelled clauses are attempted in the quick tier too; a failing one is
	// reported only when its counterexample replays on the real code
	isNewCode := func(o *Obl) bool {
		if everSeen == nil || everSeen[o.Name] {
			return false
		}
		kind := o.Kind
		if i := strings.Index(kind, ":"); i >= 0 {
			kind = kind[:i]
		}
		return safetyKinds[kind] || o.Labeled
	}
	sel := func(o *Obl) bool {
		if !hasProp(o, pset) {
			return false
		}
		if *tier == "quick" && baseline != nil && !*mkBaseline {
			// quick tier: the committed baseline obligations, the known findings, and new global-region obligations
			return baseline[o.Name] || matchKnown(known, *prop, o.Name) != nil || isNewFrame(o) || isNewInstance(o) || isNewCode(o)
		}
		return true
	}
	var results []*FuncResult
	for _, fn := range scopeFuncs() {
		r := verifyFunction(fn)
		results = append(results, r)
	}
	if pset == nil || pset["C20"] {
		if gs := verifyGlobalWrites(); len(gs.Obls) > 0 {
			results = append(results, gs)
		}
	}
	lemmaRes := verifyLemmas()
	if lemmaRes != nil {
		results = append(results, lemmaRes)
	}
	var wg sync.WaitGroup
	fsem := make(chan struct{}, 6)
	for _, r := range results {
		has := false
		for _, o := range r.Obls {
			if sel(o) {
				has = true
			}
		}
		if !has {
			continue
		}
		wg.Add(1)
		go func(r *FuncResult) {
			defer wg.Done()
			fsem <- struct{}{}
			discharge(r, sel, false)
			<-fsem
		}(r)
	}
	wg.Wait()
	// obligations left undecided by the race are retried alone with a long timeout before any verdict
	var retry []*Obl
	retryRes := map[*Obl]*FuncResult{}
	for _, r := range results {
		for _, o := range r.Obls {
			if sel(o) && o.Status != "unsat" && o.Status != "trivial" && o.Status != "sat" && (baseline == nil || baseline[o.Name] || isNewFrame(o) || isNewInstance(o)) {
				retry = append(retry, o)
				retryRes[o] = r
			}
		}
	}
	if len(retry) > 40 && len(retry) <= 3000 {
		// many undecided obligations at once is the signature of a loaded machine rather than of a
		// change to the code: a first retry round with a moderate limit brings the number down
		saved := solverTimeout
		solverTimeout = 40
		var wg1 sync.WaitGroup
		sem1 := make(chan struct{}, 4)
		for _, o := range retry {
			wg1.Add(1)
			go func(o *Obl) {
				defer wg1.Done()
				sem1 <- struct{}{}
				defer func() { <-sem1 }()
				one := func(x *Obl) bool { return x == o }
				o.Status = ""
				discharge(retryRes[o], one, true)
			}(o)
		}
		wg1.Wait()
		solverTimeout = saved
		var rest []*Obl
		for _, o := range retry {
			if o.Status != "unsat" && o.Status != "trivial" && o.Status != "sat" {
				rest = append(rest, o)
			}
		}
		retry = rest
	}
	if len(retry) > 0 && len(retry) <= 40 {
		saved := solverTimeout
		solverTimeout = 90
		var wg2 sync.WaitGroup
		rsem := make(chan struct{}, 3)
		for _, o := range retry {
			wg2.Add(1)
			go func(o *Obl) {
				defer wg2.Done()
				rsem <- struct{}{}
				defer func() { <-rsem }()
				one := func(x *Obl) bool { return x == o }
				o.Status = ""
				discharge(retryRes[o], one, true)
			}(o)
		}
		wg2.Wait()
		// last resort against solver time under machine load: what is still undecided is tried
		// once more, one obligation at a time, with a very long limit
		var still []*Obl
		for _, o := range retry {
			if o.Status != "unsat" && o.Status != "trivial" && o.Status != "sat" {
				still = append(still, o)
			}
		}
		if len(still) > 0 && len(still) <= 6 {
			solverTimeout = 300
			for _, o := range still {
				one := func(x *Obl) bool { return x == o }
				o.Status = ""
				discharge(retryRes[o], one, true)
			}
		}
		solverTimeout = saved
	}
	var evs []evidenceObl
	total, discharged, violations := 0, 0, 0
	var fuc []string
	trusted := map[string]bool{}
	var outOfReach []string
	var newBaseline []string
	solverTime := 0.0
	seen := map[string]bool{}
	var attempted []string
	var knownHit []string
	for _, r := range results {
		if r.Unsupported != "" {
			outOfReach = append(outOfReach, r.Name+": "+r.Unsupported)
			continue
		}
		used := false
		for _, o := range r.Obls {
			if !sel(o) {
				continue
			}
			used = true
			seen[o.Name] = true
			ok := o.Status == "unsat" || o.Status == "trivial"
			solverTime += o.TimeS
			inBase := baseline == nil || baseline[o.Name]
			if ok && o.TimeS < 4 {
				newBaseline = append(newBaseline, o.Name)
			}
			kf := matchKnown(known, *prop, o.Name)
			switch {
			case ok && inBase:
				total++
				discharged++
			case ok:
				attempted = append(attempted, o.Name+": discharged (not in baseline)")
			case kf != nil && !kf.Fixed:
				knownHit = append(knownHit, o.Name)
				fmt.Printf("KNOWN-FINDING: %s\n", strings.TrimPrefix(kf.Text, "finding: "))
			case inBase && baseline != nil:
				total++
				violations++
				path := writeReplay(*prop, r, o)
				suffix := ""
				if o.Status != "sat" || !o.Replayed {
					suffix = " no-failing-input-found"
				}
				fmt.Printf("VIOLATION property=%s replay=%s obligation=%s status=%s%s\n", *prop, path, o.Name, o.Status, suffix)
			case o.Status == "sat":
				// not in the baseline: only a reproduced counterexample counts, except for
				// global-region obligations of code that is new since the baseline
				path := writeReplay(*prop, r, o)
				if (o.Replayed && o.ReplayFull) || isNewFrame(o) || isNewInstance(o) {
					total++
					violations++
					sfx := ""
					if !o.Replayed {
						sfx = " no-failing-input-found"
					}
					fmt.Printf("VIOLATION property=%s replay=%s obligation=%s status=sat%s\n", *prop, path, o.Name, sfx)
				} else {
					attempted = append(attempted, o.Name+": sat (not in baseline, not reproduced)")
				}
			default:
				attempted = append(attempted, o.Name+": "+o.Status+" (not in baseline)")
			}
			evs = append(evs, evidenceObl{Name: o.Name, Status: o.Status, Solver: o.Solver, TimeS: round3(o.TimeS), Func: r.Name, Where: prog.posString(o.Pos)})
		}
		if used {
			fuc = append(fuc, r.Name)
			for _, t := range r.Trusted {
				trusted[t] = true
			}
		}
	}
	// a function whose contract can no longer be evaluated against its code (a clause names a
	// variable, field or loop that the changed code does not have): the clauses proved for it on
	// the unchanged tree no longer hold of this code, and each is reported as failed
	for _, r := range results {
		if (r.ContractErr == "" && r.Unsupported == "") || baseline == nil {
			continue
		}
		why, status := r.ContractErr, "contract-no-longer-applies"
		if why == "" {
			// the changed body uses a construct outside the verified subset: the obligations that were
			// proved for this function on the unchanged tree can no longer be generated, let alone proved
			why, status = "function is outside the verified subset now: "+r.Unsupported, "out-of-reach"
		}
		var names []string
		for n := range baseline {
			if seen[n] {
				continue
			}
			if strings.Contains(n, "."+r.Name+"[") || strings.HasSuffix(n, "."+r.Name) || strings.Contains(n, "."+r.Name+"_") || strings.Contains(n, "."+r.Name+".") || strings.Contains(n, "."+r.Name+"#") {
				names = append(names, n)
			}
		}
		if sp := lookupSpec(r.Fn); sp != nil {
			for _, l := range specLabels(sp) {
				for n := range baseline {
					if !seen[n] && (n == l || strings.HasPrefix(n, l+"#") || strings.HasPrefix(n, l+"[")) {
						names = append(names, n)
					}
				}
			}
		}
		sort.Strings(names)
		for i, n := range names {
			if i > 0 && names[i-1] == n {
				continue
			}
			seen[n] = true
			total++
			violations++
			dir := filepath.Join("/verif/replay", *prop)
			os.MkdirAll(dir, 0o755)
			path := filepath.Join(dir, sanitize(n)+".txt")
			os.WriteFile(path, []byte(fmt.Sprintf("obligation: %s\nproperty: %s\nfunction: %s\nstatus: the contract of this function can no longer be evaluated against its code, so the clause proved on the unchanged tree does not hold of the changed code\nverifier output: %s\nno counterexample: no-failing-input-found\n", n, *prop, r.Name, why)), 0o644)
			fmt.Printf("VIOLATION property=%s replay=%s obligation=%s status=%s no-failing-input-found\n", *prop, path, n, status)
			evs = append(evs, evidenceObl{Name: n, Status: status + ": " + why, Func: r.Name})
		}
	}
	// baseline obligations that no longer exist: report (not an alarm: names follow the source text)
	var missing []string
	for n := range baseline {
		if !seen[n] {
			missing = append(missing, n)
		}
	}
	sort.Strings(missing)
	if *mkBaseline {
		sort.Strings(newBaseline)
		os.MkdirAll("/verif/baseline", 0o755)
		os.WriteFile("/verif/baseline/"+*prop+".txt", []byte(strings.Join(newBaseline, "\n")+"\n"), 0o644)
		fmt.Printf("baseline written: %d obligations\n", len(newBaseline))
	}
	if total == 0 && violations == 0 {
		fmt.Printf("govc: no obligations for %s (vacuous check)\n", *prop)
		os.Exit(2)
	}
	// evidence
	var tb []string
	tb = append(tb, "VC generator govc (this repository, /verif/govc) over go/ssa of golang.org/x/tools v0.29.0", "SMT solvers z3 5.1.0, z3 4.8.12, cvc5 1.0.3 (first definitive answer wins)",
		"init probe: package-level state read back from one execution of the real init() ("+fmt.Sprint(len(globalAxioms))+" facts)")
	for t := range trusted {
		tb = append(tb, t)
	}
	sort.Strings(tb[3:])
	sort.Slice(evs, func(i, j int) bool { return evs[i].Name < evs[j].Name })
	var samples []interface{}
	for i, e := range evs {
		if i%maxInt(1, len(evs)/6) == (seed % maxInt(1, len(evs)/6)) && len(samples) < 8 {
			samples = append(samples, e)
		}
	}
	if len(samples) == 0 && len(evs) > 0 {
		samples = append(samples, evs[0])
	}
	ev := map[string]interface{}{
		"property_id": *prop,
		"tier":        *tier,
		"seed":        seed,
		"level":       "proof",
		"wall_s":      round3(time.Since(start).Seconds()),
		"violations":  violations,
		"coverage": map[string]interface{}{
			"obligations":              total,
			"discharged":               discharged,
			"checker_cmd":              fmt.Sprintf("/verif/bin/govc check --property %s --tier %s", *prop, *tier),
			"trusted_base":             tb,
			"functions_under_contract": fuc,
			"obligation_results":       evs,
			"samples":                  samples,
			"solver_time_s":            round3(solverTime),
			"out_of_reach":             outOfReach,
			"attempted_not_counted":    attempted,
			"known_findings_hit":       knownHit,
			"baseline_missing":         missing,
			"arithmetic":               "machine integers are fixed-width bit-vectors with Go wrap-around semantics; only *big.Int values are mathematical integers",
		},
		"assumptions": append(propertyAssumptions(*prop), undischargedClauses(results)...),
	}
	os.MkdirAll(*evidenceDir, 0o755)
	b, _ := json.MarshalIndent(ev, "", " ")
	os.WriteFile(filepath.Join(*evidenceDir, *prop+".json"), b, 0o644)
	fmt.Printf("property=%s obligations=%d discharged=%d violations=%d known-findings=%d attempted=%d out-of-reach=%d wall=%.1fs\n",
		*prop, total, discharged, violations, len(knownHit), len(attempted), len(outOfReach), time.Since(start).Seconds())
	if violations > 0 {
		os.Exit(1)
	}
}

// specLabels: every label of the contract of a function (function clauses and loop clauses).
func specLabels(sp *FuncSpec) []string {
	var out []string
	add := func(cs []*Clause) {
		for _, c := range cs {
			out = append(out, c.Labels...)
		}
	}
	add(sp.Requires)
	add(sp.Ensures)
	add(sp.Preserves)
	for _, l := range specs.Loops {
		if l.Fn == sp.Name {
			add(l.Invariants)
			add(l.Exits)
			add(l.BackEdges)
		}
	}
	return out
}

func maxInt(a, b int) int {
	if a > b {
		return a
	}
	return b
}

func round3(f float64) float64 { return float64(int(f*1000)) / 1000 }

func matchKnown(known []knownFinding, prop, name string) *knownFinding {
	for i := range known {
		if known[i].Prop == prop && known[i].Obligation == name {
			return &known[i]
		}
	}
	return nil
}

var propAssumptions = map[string][]string{}

func propertyAssumptions(p string) []string {
	base := []string{
		"contracts of external functions in /verif/specs/external.spec are assumed, not verified (see trusted_base for the ones used)",
		"single-threaded semantics per conversation (sync.RWMutex lock/unlock are no-ops)",
		"slice lengths and capacities are below 2^48; reference validity (no dangling pointers) as guaranteed by Go's memory safety",
		"package-level state is immutable after init (this is what C20 checks) and its values are those observed by the init probe",
		"cryptographic primitives are uninterpreted functions; no hardness assumption is modelled",
		"'modifies anything' contracts: the callee may change exactly the cells its body (transitively) can store to, computed per memory array and per struct field from the SSA; this relies on Go's type safety (no unsafe code in scope except the wipe helpers, which have explicit modifies clauses)",
		"assignment targets are evaluated as the gc compiler does (pointer operands of the left-hand side after the calls on the right-hand side); go/ssa's order differs and the language leaves it open",
		"the representation invariants of a Conversation (convOK, akeInv, smpInv, encOK, empty injection queue, no completed fragment stream) are assumed at entry of the public functions under contract",
		"three axioms of number theory over the fixed 1536-bit prime p are trusted (unitp: 2..p-2 are units; units are closed under powmod(.,.,p) and products modulo p; a unit has an inverse modulo p); they are added only to queries of functions whose conditions mention unitp",
	}
	return append(base, propAssumptions[p]...)
}

// writeReplay writes the replay file for a failed obligation and tries to
// reproduce the counterexample on the real code (see replay.go).
func writeReplay(prop string, r *FuncResult, o *Obl) string {
	dir := filepath.Join("/verif/replay", prop)
	os.MkdirAll(dir, 0o755)
	path := filepath.Join(dir, sanitize(o.Name)+".txt")
	var sb strings.Builder
	fmt.Fprintf(&sb, "obligation: %s\nproperty: %s\nfunction: %s\nkind: %s\nwhere: %s\nsource: %s\nstatus: %s (solver %s, %.2fs)\n", o.Name, prop, r.Name, o.Kind, prog.posString(o.Pos), o.Snip, o.Status, o.Solver, o.TimeS)
	rep := tryReplay(r, o)
	sb.WriteString(rep)
	fmt.Fprintf(&sb, "\n--- solver output ---\n%s\n", trunc(o.Model, 20000))
	os.WriteFile(path, []byte(sb.String()), 0o644)
	return path
}


// undischargedClauses: labelled postconditions of functions under contract that are in no
// baseline, i.e. are assumed at their call sites (modular verification) without having been
// discharged for the callee's body.  Reported in every evidence file.
func undischargedClauses(results []*FuncResult) []string {
	all := map[string]bool{}
	for p := 1; p <= 20; p++ {
		for n := range loadBaseline(fmt.Sprintf("C%02d", p)) {
			all[n] = true
		}
	}
	known := loadKnownFindings()
	var missing []string
	seen := map[string]bool{}
	for _, r := range results {
		for _, o := range r.Obls {
			if o.Kind != "ensures" || !o.Labeled || all[o.Name] || seen[o.Name] {
				continue
			}
			seen[o.Name] = true
			tag := ""
			for _, p := range o.Props {
				if kf := matchKnown(known, p, o.Name); kf != nil && !kf.Fixed {
					tag = " [known finding]"
				}
			}
			missing = append(missing, o.Name+" ("+r.Name+")"+tag)
		}
	}
	sort.Strings(missing)
	// preconditions the callee's proof relies on that are not discharged at a call site
	var pre []string
	for _, r := range results {
		for _, o := range r.Obls {
			if !strings.HasPrefix(o.Kind, "requires") || all[o.Name] || seen[o.Name] {
				continue
			}
			seen[o.Name] = true
			pre = append(pre, o.Name+" (in "+r.Name+")")
		}
	}
	sort.Strings(pre)
	var out []string
	if len(missing) > 0 {
		out = append(out, "postconditions assumed at call sites (modular verification) but not discharged for the callee's body, so not counted as proved anywhere: "+strings.Join(missing, "; "))
	}
	if len(pre) > 0 {
		out = append(out, "preconditions that the proof of a callee assumes but that are not discharged at these call sites (the chain of reasoning has a gap there): "+strings.Join(pre, "; "))
	}
	return out
}
