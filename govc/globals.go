package main

// Init probe: package-level state is established by executing the real
// init() once (it has no inputs) and reading the facts back; they become
// axioms about the immutable global region.  This step is *executed*, not
// proved, and is listed in every evidence file's trusted base.

import (
	"crypto/sha256"
	"encoding/hex"
	"encoding/json"
	"fmt"
	"go/types"
	"math/big"
	"os"
	"os/exec"
	"path/filepath"
	"sort"
	"strings"
)

type probeFact struct {
	Name     string   `json:"name"`
	Kind     string   `json:"kind"`
	Len      int      `json:"len"`
	Cap      int      `json:"cap"`
	Hex      string   `json:"hex"`
	Ptr      string   `json:"ptr"`
	Val      string   `json:"val"`
	Dyn      string   `json:"dyn"`
	Msg      string   `json:"msg"`
	Conflict bool     `json:"conflict"`
	Funcs    []string `json:"funcs"`
	Nil      bool     `json:"nil"`
}

var globalAxioms []*Term
var globalNotes []string
var nextGlobalObj int

func newGlobalObj() *Term {
	nextGlobalObj++
	id := len(prog.GlobalList) + 1024 + nextGlobalObj
	if id > prog.NG {
		fatal("global region exhausted")
	}
	return ObjRef(IntLit(int64(id)))
}

func treeHash() string {
	h := sha256.New()
	var files []string
	filepath.Walk(repoDir, func(p string, info os.FileInfo, err error) error {
		if err != nil {
			return nil
		}
		if info.IsDir() {
			if info.Name() == ".git" || info.Name() == "compat" {
				return filepath.SkipDir
			}
			return nil
		}
		if strings.HasSuffix(p, ".go") || strings.HasSuffix(p, "go.mod") {
			files = append(files, p)
		}
		return nil
	})
	sort.Strings(files)
	for _, f := range files {
		b, _ := os.ReadFile(f)
		h.Write([]byte(f))
		h.Write(b)
	}
	return hex.EncodeToString(h.Sum(nil))[:24]
}

func runInitProbe() {
	pkg := prog.SPkgs[0].Pkg
	for _, sp := range prog.SPkgs {
		if sp.Pkg.Name() == "otr3" {
			pkg = sp.Pkg
		}
	}
	var src strings.Builder
	src.WriteString("package otr3\n\nimport (\n\t\"encoding/hex\"\n\t\"encoding/json\"\n\t\"fmt\"\n\t\"reflect\"\n\t\"runtime\"\n\t\"testing\"\n)\n\n")
	src.WriteString("type zzFact struct {\n\tName string `json:\"name\"`\n\tKind string `json:\"kind\"`\n\tLen int `json:\"len\"`\n\tCap int `json:\"cap\"`\n\tHex string `json:\"hex\"`\n\tPtr string `json:\"ptr\"`\n\tVal string `json:\"val\"`\n\tDyn string `json:\"dyn\"`\n\tMsg string `json:\"msg\"`\n\tConflict bool `json:\"conflict\"`\n\tFuncs []string `json:\"funcs\"`\n\tNil bool `json:\"nil\"`\n}\n\n")
	src.WriteString("var _ = hex.EncodeToString\nvar _ = reflect.ValueOf\nvar _ = runtime.FuncForPC\n\n")
	src.WriteString("func TestZZVerifProbe(t *testing.T) {\n\tvar fs []zzFact\n")
	for _, g := range prog.GlobalList {
		if g.Pkg.Pkg != pkg {
			continue
		}
		T := g.Type().Underlying().(*types.Pointer).Elem()
		n := g.Name()
		if strings.Contains(n, "$") || n == "init$guard" {
			continue
		}
		ts := types.TypeString(T, qualifier)
		switch {
		case ts == "[]byte" || ts == "[]uint8":
			fmt.Fprintf(&src, "\tfs = append(fs, zzFact{Name: %q, Kind: \"bytes\", Len: len(%s), Cap: cap(%s), Hex: hex.EncodeToString(%s), Ptr: fmt.Sprintf(\"%%p\", %s), Nil: %s == nil})\n", n, n, n, n, n, n)
		case ts == "*big.Int":
			fmt.Fprintf(&src, "\tif %s != nil { fs = append(fs, zzFact{Name: %q, Kind: \"bigint\", Val: %s.String(), Ptr: fmt.Sprintf(\"%%p\", %s)}) }\n", n, n, n, n)
		case ts == "error":
			fmt.Fprintf(&src, "\tif oe, ok := %s.(OtrError); ok { fs = append(fs, zzFact{Name: %q, Kind: \"otrerror\", Msg: oe.msg, Conflict: oe.conflict}) } else { fs = append(fs, zzFact{Name: %q, Kind: \"error\", Nil: %s == nil, Dyn: fmt.Sprintf(\"%%T\", %s)}) }\n", n, n, n, n, n)
		case ts == "string":
			fmt.Fprintf(&src, "\tfs = append(fs, zzFact{Name: %q, Kind: \"string\", Val: %s})\n", n, n)
		case isInteger(T):
			fmt.Fprintf(&src, "\tfs = append(fs, zzFact{Name: %q, Kind: \"int\", Val: fmt.Sprintf(\"%%d\", int64(%s))})\n", n, n)
		case ts == "[]otr3.tlvHandler":
			fmt.Fprintf(&src, "\t{ f := zzFact{Name: %q, Kind: \"funcs\", Len: len(%s), Cap: cap(%s)}; for _, h := range %s { if h == nil { f.Funcs = append(f.Funcs, \"\") } else { f.Funcs = append(f.Funcs, runtime.FuncForPC(reflect.ValueOf(h).Pointer()).Name()) } }; fs = append(fs, f) }\n", n, n, n, n)
		case ts == "*constbn.Int":
			fmt.Fprintf(&src, "\tif %s != nil { fs = append(fs, zzFact{Name: %q, Kind: \"constbn\", Val: %s.GetBigInt().String()}) }\n", n, n, n)
		}
	}
	src.WriteString("\tb, _ := json.Marshal(fs)\n\tfmt.Printf(\"ZZPROBE %s\\n\", b)\n}\n")
	cacheDir := "/verif/.cache"
	os.MkdirAll(cacheDir, 0o755)
	hsum := sha256.Sum256([]byte(src.String() + treeHash()))
	cacheFile := filepath.Join(cacheDir, "probe-"+hex.EncodeToString(hsum[:])[:24]+".json")
	var raw []byte
	if b, err := os.ReadFile(cacheFile); err == nil {
		raw = b
	} else {
		tmp, err := os.MkdirTemp(cacheDir, "probe")
		if err != nil {
			fatal("probe: %v", err)
		}
		defer os.RemoveAll(tmp)
		pf := filepath.Join(tmp, "zz_verif_probe_test.go")
		os.WriteFile(pf, []byte(src.String()), 0o644)
		ov := map[string]map[string]string{"Replace": {filepath.Join(repoDir, "zz_verif_probe_test.go"): pf}}
		ob, _ := json.Marshal(ov)
		ovf := filepath.Join(tmp, "ov.json")
		os.WriteFile(ovf, ob, 0o644)
		cmd := exec.Command("go", "test", "-overlay", ovf, "-vet=off", "-count=1", "-v", "-run", "^TestZZVerifProbe$", "-timeout", "120s", ".")
		cmd.Dir = repoDir
		cmd.Env = append(os.Environ(), "GOFLAGS=-mod=mod", "GOPROXY=off", "GOSUMDB=off", "GOTOOLCHAIN=local")
		out, err := cmd.CombinedOutput()
		i := strings.Index(string(out), "ZZPROBE ")
		if i < 0 {
			fatal("init probe failed: %v\n%s", err, trunc(string(out), 2000))
		}
		line := string(out)[i+8:]
		if j := strings.Index(line, "\n"); j >= 0 {
			line = line[:j]
		}
		raw = []byte(line)
		os.WriteFile(cacheFile, raw, 0o644)
	}
	var facts []probeFact
	if err := json.Unmarshal(raw, &facts); err != nil {
		fatal("init probe: bad output: %v", err)
	}
	byName := map[string]probeFact{}
	for _, f := range facts {
		byName[f.Name] = f
	}
	gs := globalState()
	ptrObj := map[string]*Term{}
	u8 := types.Typ[types.Uint8]
	for _, g := range prog.GlobalList {
		f, ok := byName[g.Name()]
		if !ok || g.Pkg.Pkg != pkg {
			continue
		}
		T := g.Type().Underlying().(*types.Pointer).Elem()
		cell := ObjRef(IntLit(int64(prog.Globals[g])))
		switch f.Kind {
		case "bytes":
			if f.Nil {
				gfact(gs.mem(T), cell, (NilSlice))
				continue
			}
			obj, seen := ptrObj[f.Ptr]
			if !seen {
				obj = newGlobalObj()
				ptrObj[f.Ptr] = obj
			}
			gfact(gs.mem(T), cell, (MkSlice(obj, bv64(0), bv64(int64(f.Len)), bv64(int64(f.Cap)))))
			bs, _ := hex.DecodeString(f.Hex)
			if len(bs) <= 64 {
				arr := Select(gs.amem(u8), obj)
				for i, b := range bs {
					gfact(arr, bv64(int64(i)), BVLit(uint64(b), 8))
				}
			}
			globalNotes = append(globalNotes, fmt.Sprintf("%s: len=%d cap=%d", f.Name, f.Len, f.Cap))
		case "bigint":
			obj, seen := ptrObj[f.Ptr]
			if !seen {
				obj = newGlobalObj()
				ptrObj[f.Ptr] = obj
			}
			gfact(gs.mem(T), cell, (obj))
			n, _ := new(big.Int).SetString(f.Val, 10)
			srt := ArrSort(SRef, SInt)
			memArrays["G$val"] = srt
			gfact(gs.get("G$val", srt), obj, intern("lit", n.String(), SInt))
		case "constbn":
			obj := newGlobalObj()
			gfact(gs.mem(T), cell, (obj))
			n, _ := new(big.Int).SetString(f.Val, 10)
			srt := ArrSort(SRef, SInt)
			memArrays["G$val"] = srt
			gfact(gs.get("G$val", srt), obj, intern("lit", n.String(), SInt))
		case "otrerror":
			var et types.Type
			for _, it := range prog.IfaceImpls {
				if typeKey(it) == "otr3.OtrError" {
					et = it
				}
			}
			if et == nil {
				continue
			}
			box := newGlobalObj()
			gfact(gs.mem(T), cell, (MkIface(IntLit(int64(prog.tagOf(et))), box)))
			si := structInfo(et)
			for i, fld := range si.Fields {
				addr := FldRef(box, i, si.Key)
				switch fld.Name {
				case "msg":
					gfact(gs.mem(fld.T), addr, strConstGlobal(f.Msg))
				case "conflict":
					gfact(gs.mem(fld.T), addr, BoolLit(f.Conflict))
				}
			}
		case "error":
			if f.Nil {
				gfact(gs.mem(T), cell, (NilIface))
			} else {
				globalAxioms = append(globalAxioms, Neq(Acc("itag", Select(gs.mem(T), cell)), IntLit(0)))
			}
		case "string":
			gfact(gs.mem(T), cell, (strConstGlobal(f.Val)))
		case "int":
			n, _ := new(big.Int).SetString(f.Val, 10)
			gfact(gs.mem(T), cell, (BVLitBig(n, sortOf(T).W)))
		case "funcs":
			obj := newGlobalObj()
			gfact(gs.mem(T), cell, (MkSlice(obj, bv64(0), bv64(int64(f.Len)), bv64(int64(f.Cap)))))
			E := T.Underlying().(*types.Slice).Elem()
			arr := Select(gs.amem(E), obj)
			for i, fnName := range f.Funcs {
				// runtime name "github.com/coyim/otr3.initTLVHandlers.func1" -> ssa "initTLVHandlers$1"
				short := fnName[strings.LastIndex(fnName, "/")+1:]
				short = strings.TrimPrefix(short, "otr3.")
				short = strings.Replace(short, ".func", "$", 1)
				fn := prog.Funcs[short]
				if fn == nil {
					continue
				}
				gfact(arr, bv64(int64(i)), MkFunc(IntLit(int64(prog.funcID(fn))), Null))
			}
		}
	}
}

var strGlobal = map[string]*Term{}
var strByTerm = map[int]string{}

func strConstGlobal(s string) *Term {
	if s == "" {
		return EmptyStr
	}
	if t, ok := strGlobal[s]; ok {
		return t
	}
	t := Var(fmt.Sprintf("str$c%d_%s", len(strGlobal), sanitize(trunc(s, 12))), SStr)
	strGlobal[s] = t
	strByTerm[t.id] = s
	return t
}

func gfact(arr, idx, v *Term) {
	globalAxioms = append(globalAxioms, Eq(App("select", arr.Sort.Elem, arr, idx), v))
	setKnown(arr, idx, v)
}
