package main

// Native (built-in) models of a few external functions where a precise,
// quantifier-free encoding matters.  They are part of the trusted base and are
// listed as such in every evidence file that uses them.

import (
	"go/token"
	"go/types"

	"golang.org/x/tools/go/ssa"
)

type nativeFn func(fr *Frame, fn *ssa.Function, pos token.Pos, st *State, args []*Term) []*Term

var natives = map[string]nativeFn{}

func init() {
	for _, w := range []int{2, 4, 8} {
		w := w
		nm := map[int]string{2: "16", 4: "32", 8: "64"}[w]
		natives["(encoding/binary.bigEndian).Uint"+nm] = func(fr *Frame, fn *ssa.Function, pos token.Pos, st *State, args []*Term) []*Term {
			b := args[1]
			fr.obl("extpre:BigEndian.Uint"+nm, pos, BVUle(bv64(int64(w)), Acc("slen", b)), "C13")
			arr := st.arr(types.Typ[types.Uint8], Acc("sbase", b))
			off := Acc("soff", b)
			var acc *Term
			for k := 0; k < w; k++ {
				x := Select(arr, BVAdd(off, bv64(int64(k))))
				if acc == nil {
					acc = x
				} else {
					acc = Concat(acc, x)
				}
			}
			return []*Term{acc}
		}
		natives["(encoding/binary.bigEndian).PutUint"+nm] = func(fr *Frame, fn *ssa.Function, pos token.Pos, st *State, args []*Term) []*Term {
			b, v := args[1], args[2]
			fr.obl("extpre:BigEndian.PutUint"+nm, pos, BVUle(bv64(int64(w)), Acc("slen", b)), "C13")
			base := Acc("sbase", b)
			if checkFrames {
				fr.obl("store.global", pos, ILt(IntLit(int64(prog.NG)), Acc("rid", base)), "C20")
			}
			am := st.amem(types.Typ[types.Uint8])
			arr := Select(am, base)
			off := Acc("soff", b)
			for k := 0; k < w; k++ {
				hi := (w-k)*8 - 1
				arr = Store(arr, BVAdd(off, bv64(int64(k))), Extract(hi, hi-7, v))
			}
			st.set(amemName(types.Typ[types.Uint8]), Store(am, base, arr))
			return nil
		}
	}
	natives["bytes.HasPrefix"] = func(fr *Frame, fn *ssa.Function, pos token.Pos, st *State, args []*Term) []*Term {
		s, p := args[0], args[1]
		am := st.amem(types.Typ[types.Uint8])
		plen := Acc("slen", p)
		if n, ok := plen.BVVal(); ok && n <= 32 {
			sa, pa := Select(am, Acc("sbase", s)), Select(am, Acc("sbase", p))
			cs := []*Term{BVUle(plen, Acc("slen", s))}
			for i := uint64(0); i < n; i++ {
				cs = append(cs, Eq(Select(sa, BVAdd(Acc("soff", s), BVLit(i, 64))), Select(pa, BVAdd(Acc("soff", p), BVLit(i, 64)))))
			}
			return []*Term{And(cs...)}
		}
		r := Fresh("hasprefix", SBool)
		fr.assumeG(Implies(r, BVUle(plen, Acc("slen", s))))
		return []*Term{r}
	}
	natives["crypto/hmac.New"] = func(fr *Frame, fn *ssa.Function, pos token.Pos, st *State, args []*Term) []*Term {
		h, key := args[0], args[1]
		hsig := fn.Signature.Params().At(0).Type().Underlying().(*types.Signature)
		inner := fr.callDynamic(hsig, fn.Signature.Params().At(0).Type(), pos, st, h, nil)[0]
		ir := Acc("iref", inner)
		obj := fr.ex.newObj()
		res := MkIface(IntLit(int64(prog.tagOf(types.NewPointer(types.NewNamed(types.NewTypeName(token.NoPos, nil, "hmac$obj", nil), types.NewStruct(nil, nil), nil))))), obj)
		gs := func(name string, srt *Sort) *Term {
			as := ArrSort(SRef, srt)
			memArrays["G$"+name] = as
			return st.get("G$"+name, as)
		}
		st.set("G$hlen", Store(gs("hlen", BV(64)), obj, Select(gs("hlen", BV(64)), ir)))
		km := st.amem(types.Typ[types.Uint8])
		kbs := UF("bs_of", SBS, Select(km, Acc("sbase", key)), Acc("soff", key), Acc("slen", key))
		declFun("hmackind", "(declare-fun hmackind (Int BS) Int)")
		declFun("bs_empty", "(declare-fun bs_empty () BS)")
		st.set("G$hkind", Store(gs("hkind", SInt), obj, App("hmackind", SInt, Select(gs("hkind", SInt), ir), kbs)))
		st.set("G$hacc", Store(gs("hacc", SBS), obj, App("bs_empty", SBS)))
		return []*Term{res}
	}
	natives["fmt.Sprintf"] = nativeSprintf
	natives["runtime.KeepAlive"] = func(fr *Frame, fn *ssa.Function, pos token.Pos, st *State, args []*Term) []*Term { return nil }
}

// nativeSprintf models fmt.Sprintf for constant format strings made of
// literal text and the verbs %s %d %05d %x %08x %X %0x %08s %v: the result is
// a fresh string whose length is computed where the verb fixes it; contents
// stay abstract.
func nativeSprintf(fr *Frame, fn *ssa.Function, pos token.Pos, st *State, args []*Term) []*Term {
	format := args[0]
	var fs string
	found := false
	for k, t := range fr.ex.strUsed {
		if t == format {
			fs, found = k, true
		}
	}
	res := Fresh("sprintf", SStr)
	fr.assumeG(BVUlt(StrLen(res), lim48))
	if !found {
		return []*Term{res}
	}
	emptyI := types.NewInterfaceType(nil, nil)
	vs := args[1]
	arr := st.arr(emptyI, Acc("sbase", vs))
	argN := 0
	total := bv64(0)
	known := true
	for i := 0; i < len(fs); i++ {
		if fs[i] != '%' {
			total = BVAdd(total, bv64(1))
			continue
		}
		j := i + 1
		for j < len(fs) && (fs[j] >= '0' && fs[j] <= '9') {
			j++
		}
		if j >= len(fs) {
			known = false
			break
		}
		width := 0
		for _, ch := range fs[i+1 : j] {
			width = width*10 + int(ch-'0')
		}
		verb := fs[j]
		i = j
		if verb == '%' {
			total = BVAdd(total, bv64(1))
			continue
		}
		iv := Select(arr, BVAdd(Acc("soff", vs), bv64(int64(argN))))
		argN++
		tag, ok := Acc("itag", iv).IntVal()
		if !ok || int(tag) >= len(prog.TagType) || tag <= 0 {
			known = false
			continue
		}
		T := prog.TagType[tag]
		v := fr.unbox(T, iv, st)
		var ln *Term
		switch {
		case verb == 's' && sortOf(T) == SStr:
			ln = StrLen(v)
			if width > 0 {
				w := bv64(int64(width))
				ln = Ite(BVUlt(ln, w), w, ln)
			}
		case (verb == 'd') && sortOf(T).Kind == KBV:
			x := convInt(v, T, 64)
			// decimal digits of a non-negative value below 10^5 padded to width 5
			d := Fresh("digits", BV(64))
			fr.assumeG(And(BVUle(bv64(1), d), BVUle(d, bv64(20))))
			if width == 5 {
				fr.assumeG(Implies(And(BVSle(bv64(0), x), BVSlt(x, bv64(100000))), Eq(d, bv64(5))))
				fr.assumeG(BVUle(bv64(5), d))
			}
			ln = d
		case (verb == 'x' || verb == 'X') && sortOf(T).Kind == KBV && sortOf(T).W == 32 && width == 8:
			ln = bv64(8)
		default:
			d := Fresh("fmtlen", BV(64))
			fr.assumeG(BVUlt(d, lim48))
			ln = d
		}
		total = BVAdd(total, ln)
	}
	if known {
		fr.assumeG(Eq(StrLen(res), total))
	}
	return []*Term{res}
}
