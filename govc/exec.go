package main

// Symbolic execution of go/ssa function bodies into a DAG-shaped (passive)
// encoding: one reach condition per basic block, ite-merged memory at joins,
// loops cut at their headers with invariants, calls by contract or inlining.

import (
	"fmt"
	"go/constant"
	"go/token"
	"go/types"
	"sort"
	"strings"

	"golang.org/x/tools/go/ssa"
)

type Obl struct {
	Name  string
	Props []string
	Fn    string
	Kind  string
	Pos   token.Pos
	Snip  string
	Via   string
	Guard *Term
	Goal  *Term
	// filled by the checker
	Status string
	Solver string
	TimeS  float64
	Model  string
	Index  int
	Replayed bool
	ReplayFull bool // every precondition of the function was evaluated (and true) in the replay
	Labeled  bool // named by a contract label (not by source text)
}

type Event struct {
	Assume *Term
	Obl    *Obl
}

type Exec struct {
	top      *ssa.Function
	events   []Event
	allocN   int
	A0       *Term
	pre      *State
	trusted  map[string]bool
	stack    []*ssa.Function
	strUsed  map[string]*Term
	inlineN  int
	budget   int
	topFrame *Frame
	ghostLog []string
	allocs   []allocRec
	allocBound *Term // `allocates` clause of the function under verification (entry-state value), or nil
	hasFrame bool
	assumed  map[int]bool
	frameLocs []Loc
	frameProps []string
}

type deferRec struct {
	d     *ssa.Defer
	guard *Term
	fn    *Term
	args  []*Term
}

type retRec struct {
	guard *Term
	vals  []*Term
	st    *State
}

type loopCtx struct {
	header   *ssa.BasicBlock
	ordinal  int
	entrySt  *State
	phiVars  map[*ssa.Phi]*Term
	body     map[*ssa.BasicBlock]bool
	decrInit *Term
	spec     *LoopSpec
	hst      *State // state right after havoc (for invariant evaluation of 'old at header')
	framed   []string
}

type Frame struct {
	ex       *Exec
	fn       *ssa.Function
	vals     map[ssa.Value]*Term
	tups     map[ssa.Value][]*Term
	chain    string
	defers   []deferRec
	params   []*Term
	freeVars []*Term
	rets     []retRec
	entrySt  *State
	reach    map[*ssa.BasicBlock]*Term
	loops    map[*ssa.BasicBlock]*loopCtx
	curBlock *ssa.BasicBlock
	curState *State
	depth    int
	silent   bool
	recvT    types.Type
	ifaceStatic types.Type
	assumeHook func(*Term)
}

func NewExec(top *ssa.Function) *Exec {
	ex := &Exec{top: top, A0: Var("A0", SInt), trusted: map[string]bool{}, strUsed: map[string]*Term{}, budget: 6000}
	curExec = ex
	return ex
}

func (ex *Exec) assume(t *Term) {
	if t == True {
		return
	}
	if ex.assumed == nil {
		ex.assumed = map[int]bool{}
	}
	if ex.assumed[t.id] {
		return
	}
	ex.assumed[t.id] = true
	ex.events = append(ex.events, Event{Assume: t})
}

func (ex *Exec) oblige(o *Obl) {
	if o.Goal == True || o.Guard == False {
		o.Status = "trivial"
	}
	ex.events = append(ex.events, Event{Obl: o})
}

func (fr *Frame) obl(kind string, pos token.Pos, goal *Term, props ...string) {
	fr.oblG(fr.reach[fr.curBlock], kind, pos, goal, props...)
}

func (fr *Frame) oblG(guard *Term, kind string, pos token.Pos, goal *Term, props ...string) {
	if fr.silent {
		return
	}
	// a safety obligation also counts for the properties the function's contract is labelled with:
	// a property that relies on the function relies on it not panicking
	if len(props) == 1 && props[0] == "C13" && safetyKinds[strings.SplitN(kind, ":", 2)[0]] {
		for _, p := range fr.ex.frameProps {
			if p != "C13" && p != "C20" {
				props = append(props, p)
			}
		}
	}
	o := &Obl{Fn: funcName(fr.ex.top), Kind: kind, Pos: pos, Guard: guard, Goal: goal, Props: props, Via: fr.chain}
	if pos.IsValid() {
		o.Snip = prog.snippet(pos)
	}
	fr.ex.oblige(o)
}

// oblS: obligation identified by a contract source text rather than a position.
func (fr *Frame) oblS(guard *Term, kind, src string, goal *Term, props ...string) {
	if fr.silent {
		return
	}
	o := &Obl{Fn: funcName(fr.ex.top), Kind: kind, Guard: guard, Goal: goal, Props: props, Via: fr.chain, Snip: src}
	fr.ex.oblige(o)
}

func (fr *Frame) assumeG(t *Term) {
	if fr.silent {
		if fr.assumeHook != nil {
			fr.assumeHook(t)
		}
		return
	}
	fr.ex.assume(Implies(fr.reach[fr.curBlock], t))
}

// ---------- allocation & validity ----------

func (ex *Exec) newID() *Term {
	ex.allocN++
	return IAdd(ex.A0, IntLit(int64(ex.allocN)))
}

func (ex *Exec) newObj() *Term { return ObjRef(ex.newID()) }

// watermark: every reference value that exists now has rid <= watermark.
func (ex *Exec) watermark() *Term { return IAdd(ex.A0, IntLit(int64(ex.allocN))) }

func (ex *Exec) validRef(r *Term, global bool) *Term {
	id := Acc("rid", r)
	if global {
		return Or(Eq(r, Null), And(ILt(IntLit(0), id), ILe(id, IntLit(int64(prog.NG)))))
	}
	return Or(Eq(r, Null), And(ILt(IntLit(int64(prog.NG)), id), ILe(id, ex.watermark())))
}

var lim48 = BVLit(1<<48, 64)

// validVal: well-formedness facts for a value of type T coming from outside
// (parameter, memory load, havoc).  fromGlobal: value was read from the global region.
func (ex *Exec) validVal(v *Term, T types.Type, fromGlobal bool) *Term {
	switch u := T.Underlying().(type) {
	case *types.Pointer, *types.Map, *types.Chan:
		return ex.validRef(v, fromGlobal)
	case *types.Basic:
		if u.Kind() == types.UnsafePointer {
			return ex.validRef(v, fromGlobal)
		}
		if u.Info()&types.IsString != 0 {
			return BVUlt(StrLen(v), lim48)
		}
		return True
	case *types.Slice:
		ln, cp, off, base := Acc("slen", v), Acc("scap", v), Acc("soff", v), Acc("sbase", v)
		return And(ex.validRef(base, fromGlobal),
			BVUle(ln, cp), BVUlt(cp, lim48), BVUlt(off, lim48),
			Implies(Eq(base, Null), And(Eq(cp, BVLit(0, 64)), Eq(off, BVLit(0, 64)))))
	case *types.Interface:
		tag := Acc("itag", v)
		c := And(ILe(IntLit(0), tag), ex.validRef(Acc("iref", v), fromGlobal), Implies(Eq(tag, IntLit(0)), Eq(Acc("iref", v), Null)))
		if impls := closedImpls(T); impls != nil {
			var ds []*Term
			ds = append(ds, Eq(tag, IntLit(0)))
			for _, it := range impls {
				ds = append(ds, Eq(tag, IntLit(int64(prog.tagOf(it)))))
			}
			c = And(c, Or(ds...))
		}
		// empty-struct implementations carry a null payload
		return c
	case *types.Signature:
		return And(ILe(IntLit(0), Acc("fid", v)), ex.validRef(Acc("fenv", v), fromGlobal))
	case *types.Struct:
		si := structInfo(T)
		var cs []*Term
		for i, f := range si.Fields {
			cs = append(cs, ex.validVal(StructField(si, v, i), f.T, fromGlobal))
		}
		return And(cs...)
	}
	return True
}

// closedImpls: for interfaces declared in the packages under verification with
// at least one unexported method, the set of implementing concrete types is
// closed (recomputed from the loaded program on every run).
func closedImpls(T types.Type) []types.Type {
	n, ok := T.(*types.Named)
	if !ok {
		return nil
	}
	it, ok := n.Underlying().(*types.Interface)
	if !ok || n.Obj().Pkg() == nil {
		return nil
	}
	path := n.Obj().Pkg().Path()
	if path != "github.com/coyim/otr3" && path != "github.com/coyim/otr3/sexp" {
		return nil
	}
	closed := false
	for i := 0; i < it.NumMethods(); i++ {
		if !it.Method(i).Exported() {
			closed = true
		}
	}
	if !closed {
		return nil
	}
	var out []types.Type
	for _, c := range prog.IfaceImpls {
		if types.Implements(c, it) {
			out = append(out, c)
		}
	}
	return out
}

// ---------- strings ----------

func StrLen(s *Term) *Term {
	if s == EmptyStr {
		return BVLit(0, 64)
	}
	if k, ok := strByTerm[s.id]; ok {
		UF("str_len", BV(64), s) // keep the symbol declared
		return BVLit(uint64(len(k)), 64)
	}
	return UF("str_len", BV(64), s)
}
func StrAt(s, i *Term) *Term {
	if k, ok := strByTerm[s.id]; ok {
		if iv, ok := i.BVVal(); ok && iv < uint64(len(k)) {
			UF("str_at", BV(8), s, i)
			return BVLit(uint64(k[iv]), 8)
		}
	}
	return UF("str_at", BV(8), s, i)
}

func (ex *Exec) strConst(s string) *Term {
	t := strConstGlobal(s)
	ex.strUsed[s] = t
	return t
}

func trunc(s string, n int) string {
	if len(s) > n {
		return s[:n]
	}
	return s
}

func (ex *Exec) stringAxioms() []*Term {
	var out []*Term
	UF("str_len", BV(64), EmptyStr)
	out = append(out, Eq(App("str_len", BV(64), EmptyStr), BVLit(0, 64)))
	var keys []string
	for k := range strGlobal {
		keys = append(keys, k)
	}
	sort.Strings(keys)
	var all []*Term
	all = append(all, EmptyStr)
	for _, k := range keys {
		t := strGlobal[k]
		all = append(all, t)
		UF("str_len", BV(64), t)
		out = append(out, Eq(App("str_len", BV(64), t), BVLit(uint64(len(k)), 64)))
		if len(k) <= 80 {
			for i := 0; i < len(k); i++ {
				UF("str_at", BV(8), t, BVLit(0, 64))
				out = append(out, Eq(App("str_at", BV(8), t, BVLit(uint64(i), 64)), BVLit(uint64(k[i]), 8)))
			}
		}
	}
	if len(all) > 1 {
		out = append(out, App("distinct", SBool, all...))
	}
	return out
}

// ---------- values ----------

func (fr *Frame) val(v ssa.Value) *Term {
	switch x := v.(type) {
	case *ssa.Const:
		return fr.ex.constVal(x)
	case *ssa.Global:
		id, ok := prog.Globals[x]
		if !ok {
			// global of another package: opaque object in the global region
			fr.ex.trusted["external global "+x.String()+" (opaque object in the global region)"] = true
			return ObjRef(IntLit(int64(extGlobalID(x.String()))))
		}
		return ObjRef(IntLit(int64(id)))
	case *ssa.Function:
		return MkFunc(IntLit(int64(prog.funcID(x))), Null)
	case *ssa.FreeVar:
		for i, fv := range fr.fn.FreeVars {
			if fv == x {
				return fr.freeVars[i]
			}
		}
	case *ssa.Builtin:
		unsupp("builtin %s used as value", x.Name())
	}
	if t, ok := fr.vals[v]; ok {
		return t
	}
	unsupp("value %s (%T) not available in %s", v.Name(), v, fr.fn.Name())
	return nil
}

func (ex *Exec) constVal(c *ssa.Const) *Term {
	T := c.Type()
	if c.Value == nil {
		return zeroOf(T)
	}
	switch u := T.Underlying().(type) {
	case *types.Basic:
		switch {
		case u.Info()&types.IsBoolean != 0:
			return BoolLit(constant.BoolVal(c.Value))
		case u.Info()&types.IsInteger != 0:
			w, _ := intSize(u)
			iv := constant.ToInt(c.Value)
			bi, ok := constant.Val(iv).(interface{ String() string })
			_ = bi
			_ = ok
			if i64, exact := constant.Int64Val(iv); exact {
				return BVLit(uint64(i64), w)
			}
			if u64, exact := constant.Uint64Val(iv); exact {
				return BVLit(u64, w)
			}
			unsupp("big constant")
		case u.Info()&types.IsString != 0:
			return ex.strConst(constant.StringVal(c.Value))
		case u.Info()&types.IsFloat != 0:
			return Var("f64$"+sanitize(c.Value.ExactString()), SF64)
		}
	}
	unsupp("constant of type %s", T)
	return nil
}

// ---------- function execution ----------

func (ex *Exec) run(fn *ssa.Function, args, freeVars []*Term, st *State, reach *Term, chain string, depth int) ([]*Term, *State, *Term) {
	if fn.Blocks == nil {
		unsupp("no body for %s", fn)
	}
	ex.inlineN += len(fn.Blocks)
	if ex.inlineN > ex.budget {
		unsupp("inlining budget exceeded in %s", funcName(ex.top))
	}
	fr := &Frame{ex: ex, fn: fn, vals: map[ssa.Value]*Term{}, tups: map[ssa.Value][]*Term{}, chain: chain,
		params: args, freeVars: freeVars, entrySt: st, reach: map[*ssa.BasicBlock]*Term{}, loops: map[*ssa.BasicBlock]*loopCtx{}, depth: depth}
	if depth == 0 {
		ex.topFrame = fr
	}
	for i, p := range fn.Params {
		fr.vals[p] = args[i]
	}
	ex.stack = append(ex.stack, fn)
	defer func() { ex.stack = ex.stack[:len(ex.stack)-1] }()

	order := rpo(fn)
	loopInfo := findLoops(fn, order)

	type inEdge struct {
		from *ssa.BasicBlock
		cond *Term
		st   *State
	}
	incoming := map[*ssa.BasicBlock][]inEdge{}
	addEdge := func(from, to *ssa.BasicBlock, cond *Term, s *State) {
		if cond == False {
			return
		}
		if to.Dominates(from) { // back edge
			fr.backEdge(from, to, cond, s)
			return
		}
		// loop exit edges: exit assertions of every loop being left
		for h, li := range loopInfo {
			if li.body[from] && !li.body[to] {
				// exits that leave the function directly (a return inside the loop) are not loop completions
				normal := from == h
				for _, hs := range h.Succs {
					if !li.body[hs] && hs == to {
						normal = true
					}
				}
				if !normal {
					if _, isRet := to.Instrs[len(to.Instrs)-1].(*ssa.Return); isRet {
						continue
					}
				}
				fr.loopExit(h, from, cond, s)
			}
		}
		incoming[to] = append(incoming[to], inEdge{from, cond, s})
	}

	for _, b := range order {
		var cur *State
		var reachB *Term
		ins := incoming[b]
		if b == fn.Blocks[0] {
			cur = st.clone()
			reachB = reach
		} else {
			if len(ins) == 0 {
				continue
			}
			var conds []*Term
			var sts []*State
			for _, e := range ins {
				conds = append(conds, e.cond)
				sts = append(sts, e.st)
			}
			reachB = Or(conds...)
			cur = mergeStates(conds, sts)
		}
		fr.reach[b] = reachB
		fr.curBlock = b
		fr.curState = cur
		// phis
		for _, insn := range b.Instrs {
			phi, ok := insn.(*ssa.Phi)
			if !ok {
				break
			}
			var acc *Term
			for i := len(ins) - 1; i >= 0; i-- {
				e := ins[i]
				pi := predIndex(b, e.from)
				pv := fr.phiOperand(phi, pi, e.from)
				if acc == nil {
					acc = pv
				} else {
					acc = Ite(e.cond, pv, acc)
				}
			}
			if acc == nil {
				acc = zeroOf(phi.Type())
			}
			fr.vals[phi] = acc
		}
		if li, ok := loopInfo[b]; ok {
			cur = fr.enterLoop(b, li, cur)
		}
		// instructions
		for _, insn := range b.Instrs {
			if _, ok := insn.(*ssa.Phi); ok {
				continue
			}
			switch x := insn.(type) {
			case *ssa.If:
				c := fr.val(x.Cond)
				addEdge(b, b.Succs[0], And(reachB, c), cur)
				addEdge(b, b.Succs[1], And(reachB, Not(c)), cur)
			case *ssa.Jump:
				addEdge(b, b.Succs[0], reachB, cur)
			case *ssa.Return:
				var vs []*Term
				for _, r := range x.Results {
					vs = append(vs, fr.val(r))
				}
				fr.rets = append(fr.rets, retRec{reachB, vs, cur})
			case *ssa.Panic:
				fr.obl("panic", x.Pos(), False, "C13")
			default:
				fr.exec(insn, cur)
			}
		}
	}
	// merge returns
	if len(fr.rets) == 0 {
		return nil, st, False
	}
	var conds []*Term
	var sts []*State
	for _, r := range fr.rets {
		conds = append(conds, r.guard)
		sts = append(sts, r.st)
	}
	out := mergeStates(conds, sts)
	n := len(fr.rets[0].vals)
	res := make([]*Term, n)
	for j := 0; j < n; j++ {
		var acc *Term
		for i := len(fr.rets) - 1; i >= 0; i-- {
			if acc == nil {
				acc = fr.rets[i].vals[j]
			} else {
				acc = Ite(fr.rets[i].guard, fr.rets[i].vals[j], acc)
			}
		}
		res[j] = acc
	}
	return res, out, Or(conds...)
}

func (fr *Frame) phiOperand(phi *ssa.Phi, pi int, from *ssa.BasicBlock) *Term {
	if pi < 0 {
		unsupp("phi pred not found")
	}
	return fr.val(phi.Edges[pi])
}

func predIndex(b, from *ssa.BasicBlock) int {
	for i, p := range b.Preds {
		if p == from {
			return i
		}
	}
	return -1
}

func rpo(fn *ssa.Function) []*ssa.BasicBlock {
	seen := map[*ssa.BasicBlock]bool{}
	var post []*ssa.BasicBlock
	var dfs func(b *ssa.BasicBlock)
	dfs = func(b *ssa.BasicBlock) {
		seen[b] = true
		for _, s := range b.Succs {
			if !seen[s] && !s.Dominates(b) {
				dfs(s)
			}
		}
		post = append(post, b)
	}
	dfs(fn.Blocks[0])
	for i, j := 0, len(post)-1; i < j; i, j = i+1, j-1 {
		post[i], post[j] = post[j], post[i]
	}
	return post
}

type loopInfoT struct {
	header  *ssa.BasicBlock
	body    map[*ssa.BasicBlock]bool
	ordinal int
}

func findLoops(fn *ssa.Function, order []*ssa.BasicBlock) map[*ssa.BasicBlock]*loopInfoT {
	out := map[*ssa.BasicBlock]*loopInfoT{}
	for _, b := range fn.Blocks {
		for _, s := range b.Succs {
			if s.Dominates(b) {
				li := out[s]
				if li == nil {
					li = &loopInfoT{header: s, body: map[*ssa.BasicBlock]bool{s: true}}
					out[s] = li
				}
				// natural loop: nodes that reach b without passing s
				var stack []*ssa.BasicBlock
				if !li.body[b] {
					li.body[b] = true
					stack = append(stack, b)
				}
				for len(stack) > 0 {
					x := stack[len(stack)-1]
					stack = stack[:len(stack)-1]
					for _, p := range x.Preds {
						if !li.body[p] {
							li.body[p] = true
							stack = append(stack, p)
						}
					}
				}
			}
		}
	}
	var hs []*ssa.BasicBlock
	for h := range out {
		hs = append(hs, h)
	}
	sort.Slice(hs, func(i, j int) bool { return hs[i].Index < hs[j].Index })
	for i, h := range hs {
		out[h].ordinal = i
	}
	return out
}

// ---------- loops ----------

func (fr *Frame) enterLoop(h *ssa.BasicBlock, li *loopInfoT, cur *State) *State {
	ex := fr.ex
	lc := &loopCtx{header: h, ordinal: li.ordinal, entrySt: cur, phiVars: map[*ssa.Phi]*Term{}, body: li.body}
	fr.loops[h] = lc
	lc.spec = lookupLoopSpec(fr.fn, li.ordinal)
	reachB := fr.reach[h]
	// 1. invariants on entry
	for _, inv := range fr.loopInvariants(lc, cur, nil) {
		fr.oblS(reachB, "inv.entry", inv.src, inv.t, inv.props...)
	}
	// 2. havoc
	hst := cur.clone()
	ws := loopWrites(fr, li)
	for name, w := range ws {
		srt := memArrays[name]
		if srt == nil {
			continue
		}
		old := hst.get(name, srt)
		if w.all {
			nv := Fresh(name+"$loop", srt)
			hst.set(name, nv)
			if ex.hasFrame || (strictGhost[name] && ex.frameProps != nil) {
				lc.framed = append(lc.framed, name)
				ex.assume(Implies(reachB, ex.frameFormula(name, nv)))
			}
			continue
		}
		nw := old
		for _, a := range w.addrs {
			nw = Store(nw, a, Fresh(name+"$lv", srt.Elem))
		}
		hst.set(name, nw)
	}
	for _, insn := range h.Instrs {
		phi, ok := insn.(*ssa.Phi)
		if !ok {
			break
		}
		v := Fresh(fmt.Sprintf("%s$%s", fr.fn.Name(), phiName(phi)), sortOf(phi.Type()))
		lc.phiVars[phi] = v
		fr.vals[phi] = v
		ex.assume(Implies(reachB, ex.validVal(v, phi.Type(), false)))
	}
	lc.hst = hst
	// 3. assume invariants
	for _, inv := range fr.loopInvariants(lc, hst, nil) {
		ex.assume(Implies(reachB, inv.t))
	}
	if d := fr.loopDecreases(lc, hst, nil); d != nil {
		lc.decrInit = d
	}
	return hst
}

func phiName(phi *ssa.Phi) string {
	if phi.Comment != "" {
		return phi.Comment
	}
	return phi.Name()
}

func (fr *Frame) backEdge(from, h *ssa.BasicBlock, cond *Term, st *State) {
	lc := fr.loops[h]
	if lc == nil {
		unsupp("back edge to unknown loop")
	}
	pi := predIndex(h, from)
	over := map[*ssa.Phi]*Term{}
	for _, insn := range h.Instrs {
		phi, ok := insn.(*ssa.Phi)
		if !ok {
			break
		}
		over[phi] = fr.val(phi.Edges[pi])
	}
	for _, inv := range fr.loopInvariants(lc, st, over) {
		fr.oblS(cond, "inv.preserved", inv.src, inv.t, inv.props...)
	}
	if lc.spec != nil && len(lc.spec.BackEdges) > 0 {
		env := fr.loopEnv(lc, st, nil) // header values under their own names
		for phi, nv := range over {
			env.vars[phiName(phi)+"1"] = CVal{T: nv, Ty: phi.Type()}
		}
		for _, c := range lc.spec.BackEdges {
			t, err := fr.ex.safeEval(env, func() *Term { return env.boolOf(c.E) })
			if err != "" {
				contractFatal("contract error in backedge clause of %s #%d: %s", funcName(fr.fn), lc.ordinal, err)
			}
			ps := labelProps(c.Labels)
			if len(ps) == 0 {
				ps = []string{"C13"}
			}
			name := ""
			if len(c.Labels) > 0 {
				name = c.Labels[0]
			}
			fr.ex.oblige(&Obl{Fn: funcName(fr.ex.top), Kind: "loop.step", Guard: cond, Goal: t, Props: ps, Via: fr.chain, Snip: c.Src, Name: name})
		}
	}
	for _, name := range lc.framed {
		cur := st.get(name, memArrays[name])
		o := &Obl{Fn: funcName(fr.ex.top), Kind: "frame.loop", Guard: cond, Goal: fr.ex.frameFormula(name, cur), Props: fr.ex.frameProps, Snip: "modifies: " + name, Via: fr.chain}
		fr.ex.oblige(o)
	}
	if lc.decrInit != nil {
		d := fr.loopDecreases(lc, st, over)
		// measure is a signed 64-bit quantity: strictly decreases and stays >= 0 before
		if d.Sort == SInt {
			fr.oblG(cond, "decreases", h.Instrs[0].Pos(), And(ILt(d, lc.decrInit), ILe(IntLit(0), lc.decrInit)), "C13")
		} else {
			fr.oblG(cond, "decreases", h.Instrs[0].Pos(), And(BVSlt(d, lc.decrInit), BVSle(BVLit(0, 64), lc.decrInit)), "C13")
		}
	}
}

// loopExit checks the `exit` clauses of a loop on an edge that leaves it.
func (fr *Frame) loopExit(h, from *ssa.BasicBlock, cond *Term, st *State) {
	lc := fr.loops[h]
	if lc == nil || lc.spec == nil || len(lc.spec.Exits) == 0 {
		return
	}
	env := fr.loopEnv(lc, st, nil)
	// source-level names visible at the exiting block
	for _, b := range fr.fn.Blocks {
		if !b.Dominates(from) {
			continue
		}
		for _, insn := range b.Instrs {
			if d, ok := insn.(*ssa.DebugRef); ok && !d.IsAddr && d.Object() != nil {
				if _, isPhi := env.vars[d.Object().Name()]; isPhi && lc.body[b] && b != from {
					// keep header phi binding unless redefined later in a dominating body block
				}
				if t, ok := fr.vals[d.X]; ok {
					if lc.body[b] {
						env.vars[d.Object().Name()] = CVal{T: t, Ty: d.X.Type()}
					}
				} else if c, ok := d.X.(*ssa.Const); ok && lc.body[b] {
					env.vars[d.Object().Name()] = CVal{T: fr.ex.constVal(c), Ty: c.Type()}
				}
			}
		}
	}
	for _, c := range lc.spec.Exits {
		t, err := fr.ex.safeEval(env, func() *Term { return env.boolOf(c.E) })
		if err != "" {
			contractFatal("contract error in exit clause of %s #%d: %s", funcName(fr.fn), lc.ordinal, err)
		}
		ps := labelProps(c.Labels)
		if len(ps) == 0 {
			ps = []string{"C13"}
		}
		name := ""
		if len(c.Labels) > 0 {
			name = c.Labels[0]
		}
		o := &Obl{Fn: funcName(fr.ex.top), Kind: "loop.exit", Guard: cond, Goal: t, Props: ps, Via: fr.chain, Snip: c.Src, Name: name}
		fr.ex.oblige(o)
	}
}

type writeInfo struct {
	all   bool
	addrs []*Term
}

// loopWrites computes which memory arrays a loop body may write, by a
// syntactic scan (including callees).  Stores whose address is defined outside
// the loop are havocked precisely.
func loopWrites(fr *Frame, li *loopInfoT) map[string]*writeInfo {
	out := map[string]*writeInfo{}
	mark := func(name string) *writeInfo {
		w := out[name]
		if w == nil {
			w = &writeInfo{}
			out[name] = w
		}
		return w
	}
	outside := func(v ssa.Value) bool {
		switch x := v.(type) {
		case *ssa.Parameter, *ssa.Global, *ssa.Const, *ssa.FreeVar, *ssa.Function:
			return true
		case ssa.Instruction:
			return !li.body[x.Block()]
		}
		return false
	}
	for b := range li.body {
		for _, insn := range b.Instrs {
			switch x := insn.(type) {
			case *ssa.Store:
				T := x.Val.Type()
				names := cellArrays(T, x.Addr)
				precise := outside(x.Addr)
				if fa, ok := x.Addr.(*ssa.FieldAddr); ok && outside(fa.X) {
					precise = true
				}
				for _, n := range names {
					w := mark(n)
					if precise && isScalarCell(T) && n == memName(T) {
						if t, ok := fr.tryVal(x.Addr); ok {
							w.addrs = append(w.addrs, t)
							continue
						}
					}
					// element store into a loop-invariant slice/array: havoc that array object only
					if ia, ok := x.Addr.(*ssa.IndexAddr); ok && outside(ia.X) && n == amemName(T) {
						if t, ok := fr.tryVal(ia.X); ok {
							base := t
							if _, isSl := ia.X.Type().Underlying().(*types.Slice); isSl {
								base = Acc("sbase", t)
							}
							w.addrs = append(w.addrs, base)
							continue
						}
					}
					w.all = true
				}
			case ssa.CallInstruction:
				for n := range callWrites(x.Common(), map[*ssa.Function]bool{}) {
					if n == "*" {
						for k := range memArrays {
							mark(k).all = true
						}
						continue
					}
					mark(n).all = true
				}
			}
		}
	}
	return out
}

func (fr *Frame) tryVal(v ssa.Value) (t *Term, ok bool) {
	defer func() {
		if r := recover(); r != nil {
			if _, isU := r.(unsupported); isU {
				t, ok = nil, false
				return
			}
			panic(r)
		}
	}()
	switch x := v.(type) {
	case *ssa.FieldAddr:
		base, ok := fr.tryVal(x.X)
		if !ok {
			return nil, false
		}
		st := x.X.Type().Underlying().(*types.Pointer).Elem()
		return FldRef(base, x.Field, structInfo(st).Key), true
	}
	if _, isInstr := v.(ssa.Instruction); isInstr {
		if t, ok := fr.vals[v]; ok {
			return t, true
		}
		return nil, false
	}
	return fr.val(v), true
}

func isScalarCell(T types.Type) bool {
	switch T.Underlying().(type) {
	case *types.Struct, *types.Array:
		return false
	}
	return true
}

// cellArrays: names of the memory arrays a store of a value of type T at addr may touch.
func cellArrays(T types.Type, addr ssa.Value) []string {
	var out []string
	var rec func(T types.Type)
	rec = func(T types.Type) {
		switch u := T.Underlying().(type) {
		case *types.Struct:
			if elemTypeKeys[typeKey(T)] {
				out = append(out, amemName(T))
			}
			for i := 0; i < u.NumFields(); i++ {
				rec(u.Field(i).Type())
			}
		case *types.Array:
			out = append(out, amemName(u.Elem()))
		default:
			out = append(out, memName(T))
			if elemTypeKeys[typeKey(T)] {
				out = append(out, amemName(T))
			}
		}
	}
	rec(T)
	// make sure the arrays are registered
	for _, n := range out {
		if _, ok := memArrays[n]; !ok {
			registerArrayByName(n, T)
		}
	}
	return out
}

func registerArrayByName(n string, hint types.Type) {
	// resolved lazily through keyToType
	key := n[2:]
	t := keyToType[key]
	if t == nil {
		return
	}
	if strings.HasPrefix(n, "M$") {
		memArrays[n] = memSort(t)
	} else {
		memArrays[n] = amemSort(t)
	}
}

var callWritesCache = map[*ssa.Function]map[string]bool{}

// callWrites: memory arrays possibly written by a call (transitively), "*" = unknown/all.
func callWrites(c *ssa.CallCommon, visiting map[*ssa.Function]bool) map[string]bool {
	out := map[string]bool{}
	if c.IsInvoke() {
		// interface call: union over known implementations, else argument arrays
		impls := closedImpls(c.Value.Type())
		if impls == nil {
			for _, a := range c.Args {
				for _, n := range argArrays(a.Type()) {
					out[n] = true
				}
			}
			// ghost state written according to the interface method's assumed contract
			if sp := lookupIfaceSpec(c.Value.Type(), c.Method.Name()); sp != nil {
				if sp.ModAny {
					out["*"] = true
				}
				for _, m := range sp.Modifies {
					switch {
					case m.Op == "call" && specs.GhostFields[m.Name] != "":
						out["G$"+m.Name] = true
					case m.Op == "call" && m.Name == "elems":
						// covered by the argument arrays
					default:
						out["*"] = true
					}
				}
			}
			return out
		}
		for _, it := range impls {
			if fn := prog.SSA.LookupMethod(it, c.Method.Pkg(), c.Method.Name()); fn != nil {
				for n := range funcWrites(fn, visiting) {
					out[n] = true
				}
			}
		}
		return out
	}
	if b, ok := c.Value.(*ssa.Builtin); ok {
		switch b.Name() {
		case "append":
			if sl, ok := c.Args[0].Type().Underlying().(*types.Slice); ok {
				out[amemName(sl.Elem())] = true
				registerArrayByName(amemName(sl.Elem()), nil)
			}
		case "copy":
			if sl, ok := c.Args[0].Type().Underlying().(*types.Slice); ok {
				out[amemName(sl.Elem())] = true
				registerArrayByName(amemName(sl.Elem()), nil)
			}
		}
		return out
	}
	if fn := c.StaticCallee(); fn != nil {
		if inScope(fn) {
			return funcWrites(fn, visiting)
		}
		if sp := lookupSpec(fn); sp != nil {
			return specWrites(sp, fn)
		}
		for _, a := range c.Args {
			for _, n := range argArrays(a.Type()) {
				out[n] = true
			}
		}
		return out
	}
	// dynamic call: the in-scope functions whose address is taken with this signature, and (for
	// open function values, as in callDynamic) the arrays of slice arguments
	for _, a := range c.Args {
		for _, n := range argArrays(a.Type()) {
			out[n] = true
		}
	}
	for _, f := range funcValueCandidates(c.Signature()) {
		for n := range funcWrites(f, visiting) {
			out[n] = true
		}
	}
	return out
}

func argArrays(T types.Type) []string {
	switch u := T.Underlying().(type) {
	case *types.Slice:
		n := amemName(u.Elem())
		registerArrayByName(n, nil)
		return []string{n}
	}
	return nil
}

func funcWrites(fn *ssa.Function, visiting map[*ssa.Function]bool) map[string]bool {
	if r, ok := callWritesCache[fn]; ok {
		return r
	}
	if visiting[fn] {
		return map[string]bool{}
	}
	visiting[fn] = true
	out := map[string]bool{}
	if sp := lookupSpec(fn); sp != nil && sp.HasModifies && !(sp.ModAny && fn.Blocks != nil && inScope(fn)) {
		for n := range specWrites(sp, fn) {
			out[n] = true
		}
	} else {
		for _, b := range fn.Blocks {
			for _, insn := range b.Instrs {
				switch x := insn.(type) {
				case *ssa.Store:
					for _, n := range cellArrays(x.Val.Type(), x.Addr) {
						out[n] = true
					}
				case ssa.CallInstruction:
					for n := range callWrites(x.Common(), visiting) {
						out[n] = true
					}
				}
			}
		}
	}
	delete(visiting, fn)
	if len(visiting) == 0 {
		callWritesCache[fn] = out
	}
	if out["*"] {
		for n := range memArrays {
			out[n] = true
		}
	}
	return out
}

var extGlobals = map[string]int{}

// extGlobalID: ids len(globals)+1 .. len(globals)+1024 are reserved for package-level variables of other packages.
func extGlobalID(name string) int {
	if id, ok := extGlobals[name]; ok {
		return id
	}
	id := len(prog.GlobalList) + 1 + len(extGlobals)
	extGlobals[name] = id
	return id
}

// frameFormula: every cell of the named memory array that existed at function
// entry and is not listed in the function's modifies clause has its entry value.
func (ex *Exec) frameFormula(name string, cur *Term) *Term {
	srt := memArrays[name]
	ini := ex.pre.get(name, srt)
	if cur == ini {
		return True
	}
	r := BoundVar("fr$r", SRef)
	var allowed []*Term
	allowed = append(allowed, ILt(ex.A0, Acc("rid", r)))
	for _, l := range ex.frameLocs {
		if l.arr == name {
			allowed = append(allowed, Eq(r, l.addr))
		}
	}
	sel := App("select", srt.Elem, cur, r)
	if patternOK(sel) {
		return Forall([]*Term{r}, Or(append(allowed, Eq(sel, Select(ini, r)))...), sel)
	}
	return Forall([]*Term{r}, Or(append(allowed, Eq(sel, Select(ini, r)))...))
}

// ---------- field-level write sets ----------
//
// For every memory array M$T: which struct fields (struct key, field index) a function can
// store to (transitively), or `any` when it stores through a pointer of unknown origin.  A cell
// whose address ends in field i of struct K can only be written by a store through
// FieldAddr(K, i), by a store of an enclosing struct value, or through a pointer to that cell
// that was passed around (counted as `any`): Go's type safety, no unsafe code in scope except
// the wipe helpers, which have explicit `modifies` clauses.

type fieldSet struct {
	any    bool
	fields map[string]bool
}

type fieldWrites map[string]*fieldSet

func (fw fieldWrites) get(arr string) *fieldSet {
	fs := fw[arr]
	if fs == nil {
		fs = &fieldSet{fields: map[string]bool{}}
		fw[arr] = fs
	}
	return fs
}

func (fw fieldWrites) merge(o fieldWrites) {
	for n, s := range o {
		d := fw.get(n)
		if s.any {
			d.any = true
		}
		for k := range s.fields {
			d.fields[k] = true
		}
	}
}

func (fw fieldWrites) all() {
	fw.get("*").any = true
}

// leafCells records the cells written by a store of a value of type T at an address whose last
// path component is field (K, i) (K == "" for an address of unknown shape).
func (fw fieldWrites) leafCells(T types.Type, K string, i int) {
	switch u := T.Underlying().(type) {
	case *types.Struct:
		if elemTypeKeys[typeKey(T)] {
			// may also live as a whole value inside an element array; the M$ cells are per field
		}
		si := structInfo(T)
		for j, f := range si.Fields {
			fw.leafCells(f.T, si.Key, j)
		}
		_ = u
	case *types.Array:
		// element arrays are tracked by type only
	default:
		fs := fw.get(memName(T))
		if K == "" {
			fs.any = true
		} else {
			fs.fields[fmt.Sprintf("%s#%d", K, i)] = true
		}
	}
}

var fieldWritesCache = map[*ssa.Function]fieldWrites{}

func funcFieldWrites(fn *ssa.Function, visiting map[*ssa.Function]bool) fieldWrites {
	if r, ok := fieldWritesCache[fn]; ok {
		return r
	}
	out := fieldWrites{}
	if visiting[fn] {
		return out
	}
	visiting[fn] = true
	sp := lookupSpec(fn)
	switch {
	case sp != nil && sp.HasModifies && !sp.ModAny:
		out.merge(specFieldWrites(sp, fn))
	case sp != nil && sp.ModAny && (fn.Blocks == nil || !inScope(fn)):
		out.all()
	case fn.Blocks == nil:
		// external without a contract: writes only through slice arguments (element arrays)
	default:
		for _, b := range fn.Blocks {
			for _, insn := range b.Instrs {
				switch x := insn.(type) {
				case *ssa.Store:
					switch a := x.Addr.(type) {
					case *ssa.FieldAddr:
						sT := a.X.Type().Underlying().(*types.Pointer).Elem()
						out.leafCells(x.Val.Type(), structInfo(sT).Key, a.Field)
					case *ssa.Alloc:
						// a fresh object of this activation
					case *ssa.IndexAddr:
						// element of an array object (A$ arrays)
						if _, isS := x.Val.Type().Underlying().(*types.Struct); !isS {
							// scalar element pointer: may denote an M$ cell only through element-pointer
							// dispatch, which goes to the A$ array
						}
					default:
						out.leafCells(x.Val.Type(), "", 0)
					}
				case ssa.CallInstruction:
					out.merge(callFieldWrites(x.Common(), visiting))
				}
			}
		}
	}
	delete(visiting, fn)
	if len(visiting) == 0 {
		fieldWritesCache[fn] = out
	}
	return out
}

func specFieldWrites(sp *FuncSpec, fn *ssa.Function) fieldWrites {
	out := fieldWrites{}
	ex := NewExec(fn)
	var args []*Term
	for i, p := range fn.Params {
		args = append(args, Var(fmt.Sprintf("dummy$%d", i), sortOf(p.Type())))
	}
	st := NewState("dummy")
	env := ex.specEnv(nil, fn, sp, args, st, st)
	for _, m := range sp.Modifies {
		func() {
			defer func() {
				if r := recover(); r != nil {
					out.all()
				}
			}()
			for _, l := range env.locsOf(m) {
				if !strings.HasPrefix(l.arr, "M$") {
					continue
				}
				fs := out.get(l.arr)
				if l.addr.Op == "mkref" && l.addr.Args[1].Op == "pfld" {
					if k, ok := l.addr.Args[1].Args[1].IntVal(); ok {
						fs.fields[fmt.Sprintf("%s#%d", l.addr.Args[1].Name, k)] = true
						continue
					}
				}
				fs.any = true
			}
		}()
	}
	return out
}

func callFieldWrites(c *ssa.CallCommon, visiting map[*ssa.Function]bool) fieldWrites {
	out := fieldWrites{}
	if c.IsInvoke() {
		impls := closedImpls(c.Value.Type())
		if impls == nil {
			if sp := lookupIfaceSpec(c.Value.Type(), c.Method.Name()); sp != nil && sp.ModAny {
				out.all()
			}
			return out
		}
		for _, it := range impls {
			if fn := prog.SSA.LookupMethod(it, c.Method.Pkg(), c.Method.Name()); fn != nil {
				out.merge(funcFieldWrites(fn, visiting))
			}
		}
		return out
	}
	if _, ok := c.Value.(*ssa.Builtin); ok {
		return out
	}
	if fn := c.StaticCallee(); fn != nil {
		if inScope(fn) {
			return funcFieldWrites(fn, visiting)
		}
		if sp := lookupSpec(fn); sp != nil {
			if sp.ModAny {
				out.all()
				return out
			}
			if sp.HasModifies {
				return specFieldWrites(sp, fn)
			}
		}
		return out
	}
	for _, f := range funcValueCandidates(c.Signature()) {
		out.merge(funcFieldWrites(f, visiting))
	}
	return out
}

var havocFieldWrites = map[string]fieldWrites{}
