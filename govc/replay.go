package main

// Replay of solver counterexamples against the real code.
//
// For a failed obligation with a model, the model is projected onto the
// function's parameters (integers, booleans, strings, byte slices, *big.Int,
// structs of those), a Go test that calls the real function with these inputs
// is generated and run through `go test -overlay` (nothing is written to
// /repo).  A safety obligation counts as reproduced when the call panics.

import (
	"bytes"
	"context"
	"encoding/json"
	"fmt"
	"go/types"
	"math/big"
	"os"
	"os/exec"
	"path/filepath"
	"regexp"
	"strings"
	"time"

	"golang.org/x/tools/go/ssa"
)

type replayer struct {
	script  string
	queries []string
	answers map[string]string
	unsupp  string
}

func (rp *replayer) ask(q string) {
	rp.queries = append(rp.queries, q)
}

var valueRe = regexp.MustCompile(`#x[0-9a-fA-F]+|#b[01]+|\(- \d+\)|\d+|true|false`)

// runQueries runs z3-new on the script plus (get-value ..) and fills answers.
func (rp *replayer) runQueries() bool {
	if len(rp.queries) == 0 {
		return true
	}
	var sb strings.Builder
	sb.WriteString(strings.Replace(rp.script, "(get-model)\n", "", 1))
	for _, q := range rp.queries {
		fmt.Fprintf(&sb, "(get-value (%s))\n", q)
	}
	ctx, cancel := context.WithTimeout(context.Background(), 40*time.Second)
	defer cancel()
	cmd := exec.CommandContext(ctx, "z3-new", "-in", "-smt2", "-T:30")
	cmd.Stdin = strings.NewReader(sb.String())
	var out bytes.Buffer
	cmd.Stdout = &out
	cmd.Stderr = &out
	_ = cmd.Run()
	lines := strings.Split(out.String(), "\n")
	i := 0
	for i < len(lines) && strings.TrimSpace(lines[i]) != "sat" {
		i++
	}
	if i >= len(lines) {
		return false
	}
	rest := strings.Join(lines[i+1:], "\n")
	// answers come in order, one s-expression per query
	pos := 0
	for _, q := range rp.queries {
		// find next top-level "((" ... "))"
		start := strings.Index(rest[pos:], "((")
		if start < 0 {
			return false
		}
		start += pos
		depth := 0
		end := -1
		for j := start; j < len(rest); j++ {
			if rest[j] == '(' {
				depth++
			} else if rest[j] == ')' {
				depth--
				if depth == 0 {
					end = j
					break
				}
			}
		}
		if end < 0 {
			return false
		}
		ans := rest[start : end+1]
		// value = last token group after the echoed term
		vals := valueRe.FindAllString(ans, -1)
		if len(vals) == 0 {
			rp.answers[q] = ans
		} else {
			rp.answers[q] = vals[len(vals)-1]
		}
		pos = end + 1
	}
	rp.queries = nil
	return true
}

func parseNum(s string) (*big.Int, bool) {
	n := new(big.Int)
	switch {
	case strings.HasPrefix(s, "#x"):
		_, ok := n.SetString(s[2:], 16)
		return n, ok
	case strings.HasPrefix(s, "#b"):
		_, ok := n.SetString(s[2:], 2)
		return n, ok
	case strings.HasPrefix(s, "(- "):
		_, ok := n.SetString(strings.TrimSuffix(s[3:], ")"), 10)
		return n.Neg(n), ok
	}
	_, ok := n.SetString(s, 10)
	return n, ok
}

func typeLit(T types.Type) string {
	return types.TypeString(T, func(p *types.Package) string {
		if p.Name() == "otr3" || p.Name() == "sexp" {
			return ""
		}
		return p.Name()
	})
}

// plan collects the queries needed to render a value; render produces the Go literal.
type valuePlan struct {
	term string
	T    types.Type
}

func (rp *replayer) plan1(term string, T types.Type) {
	switch u := T.Underlying().(type) {
	case *types.Basic:
		switch {
		case u.Info()&types.IsInteger != 0, u.Info()&types.IsBoolean != 0:
			rp.ask(term)
		case u.Info()&types.IsString != 0:
			rp.ask(fmt.Sprintf("(str_len %s)", term))
		default:
			rp.unsupp = "parameter of type " + T.String()
		}
	case *types.Slice:
		if eb, ok := u.Elem().Underlying().(*types.Basic); !ok || eb.Kind() != types.Uint8 {
			rp.unsupp = "slice parameter of type " + T.String()
			return
		}
		rp.ask(fmt.Sprintf("(= (sbase %s) null)", term))
		rp.ask(fmt.Sprintf("(slen %s)", term))
		rp.ask(fmt.Sprintf("(scap %s)", term))
	case *types.Struct:
		si := structInfo(T)
		for _, f := range si.Fields {
			rp.plan1(fmt.Sprintf("(%s %s)", quoteSym(f.Acc), term), f.T)
		}
	case *types.Array:
		if eb, ok := u.Elem().Underlying().(*types.Basic); !ok || eb.Kind() != types.Uint8 || u.Len() > 64 {
			rp.unsupp = "array parameter of type " + T.String()
			return
		}
		for i := int64(0); i < u.Len(); i++ {
			rp.ask(fmt.Sprintf("(select %s (_ bv%d 64))", term, i))
		}
	case *types.Pointer:
		if n, ok := u.Elem().(*types.Named); ok && n.Obj().Name() == "Int" && n.Obj().Pkg() != nil && n.Obj().Pkg().Path() == "math/big" {
			rp.ask(fmt.Sprintf("(= %s null)", term))
			if _, ok := memArrays["G$val"]; ok {
				rp.ask(fmt.Sprintf("(select |G$val@pre| %s)", term))
			}
			return
		}
		rp.unsupp = "pointer parameter of type " + T.String()
	default:
		rp.unsupp = "parameter of type " + T.String()
	}
}

const maxReplayBytes = 4096

func (rp *replayer) plan2(term string, T types.Type) {
	switch u := T.Underlying().(type) {
	case *types.Basic:
		if u.Info()&types.IsString != 0 {
			n, ok := parseNum(rp.answers[fmt.Sprintf("(str_len %s)", term)])
			if !ok || n.Cmp(big.NewInt(maxReplayBytes)) > 0 {
				rp.unsupp = "string too long in model"
				return
			}
			for i := int64(0); i < n.Int64(); i++ {
				rp.ask(fmt.Sprintf("(str_at %s (_ bv%d 64))", term, i))
			}
		}
	case *types.Slice:
		if rp.answers[fmt.Sprintf("(= (sbase %s) null)", term)] == "true" {
			return
		}
		n, ok := parseNum(rp.answers[fmt.Sprintf("(slen %s)", term)])
		if !ok || n.Cmp(big.NewInt(maxReplayBytes)) > 0 {
			rp.unsupp = fmt.Sprintf("slice of length %s in model: too large to materialise", rp.answers[fmt.Sprintf("(slen %s)", term)])
			return
		}
		for i := int64(0); i < n.Int64(); i++ {
			rp.ask(fmt.Sprintf("(select (select |A$uint8@pre| (sbase %s)) (bvadd (soff %s) (_ bv%d 64)))", term, term, i))
		}
	case *types.Struct:
		si := structInfo(T)
		for _, f := range si.Fields {
			rp.plan2(fmt.Sprintf("(%s %s)", quoteSym(f.Acc), term), f.T)
		}
	}
}

func (rp *replayer) render(term string, T types.Type) string {
	switch u := T.Underlying().(type) {
	case *types.Basic:
		switch {
		case u.Info()&types.IsBoolean != 0:
			return fmt.Sprintf("%s(%s)", typeLit(T), rp.answers[term])
		case u.Info()&types.IsInteger != 0:
			n, _ := parseNum(rp.answers[term])
			w, sg := intSize(u)
			if sg && n.Bit(w-1) == 1 {
				n.Sub(n, new(big.Int).Lsh(big.NewInt(1), uint(w)))
			}
			return fmt.Sprintf("%s(%s)", typeLit(T), n.String())
		case u.Info()&types.IsString != 0:
			n, _ := parseNum(rp.answers[fmt.Sprintf("(str_len %s)", term)])
			var bs []byte
			for i := int64(0); i < n.Int64(); i++ {
				b, _ := parseNum(rp.answers[fmt.Sprintf("(str_at %s (_ bv%d 64))", term, i)])
				bs = append(bs, byte(b.Int64()))
			}
			return fmt.Sprintf("%s(%q)", typeLit(T), string(bs))
		}
	case *types.Slice:
		if rp.answers[fmt.Sprintf("(= (sbase %s) null)", term)] == "true" {
			return fmt.Sprintf("%s(nil)", typeLit(T))
		}
		n, _ := parseNum(rp.answers[fmt.Sprintf("(slen %s)", term)])
		cp, _ := parseNum(rp.answers[fmt.Sprintf("(scap %s)", term)])
		var parts []string
		for i := int64(0); i < n.Int64(); i++ {
			b, _ := parseNum(rp.answers[fmt.Sprintf("(select (select |A$uint8@pre| (sbase %s)) (bvadd (soff %s) (_ bv%d 64)))", term, term, i)])
			parts = append(parts, fmt.Sprintf("0x%02x", b.Int64()))
		}
		lit := fmt.Sprintf("[]byte{%s}", strings.Join(parts, ", "))
		if cp.Cmp(n) > 0 && cp.Cmp(big.NewInt(maxReplayBytes)) <= 0 {
			lit = fmt.Sprintf("append(make([]byte, 0, %d), %s...)", cp.Int64(), lit)
		}
		return fmt.Sprintf("%s(%s)", typeLit(T), lit)
	case *types.Struct:
		si := structInfo(T)
		var parts []string
		for _, f := range si.Fields {
			parts = append(parts, fmt.Sprintf("%s: %s", f.Name, rp.render(fmt.Sprintf("(%s %s)", quoteSym(f.Acc), term), f.T)))
		}
		return fmt.Sprintf("%s{%s}", typeLit(T), strings.Join(parts, ", "))
	case *types.Array:
		var parts []string
		for i := int64(0); i < u.Len(); i++ {
			b, _ := parseNum(rp.answers[fmt.Sprintf("(select %s (_ bv%d 64))", term, i)])
			parts = append(parts, fmt.Sprintf("0x%02x", b.Int64()))
		}
		return fmt.Sprintf("%s{%s}", typeLit(T), strings.Join(parts, ", "))
	case *types.Pointer:
		if rp.answers[fmt.Sprintf("(= %s null)", term)] == "true" {
			return "(*big.Int)(nil)"
		}
		v := "0"
		if a, ok := rp.answers[fmt.Sprintf("(select |G$val@pre| %s)", term)]; ok {
			if n, ok := parseNum(a); ok {
				v = n.String()
			}
		}
		return fmt.Sprintf("zzBig(%q)", v)
	}
	return "nil"
}

var safetyKinds = map[string]bool{"index": true, "slice": true, "nil": true, "nil.iface": true, "nil.func": true, "divzero": true, "typeassert": true, "makeslice": true, "panic": true, "shift.negative": true}

func tryReplay(r *FuncResult, o *Obl) string {
	if o.Status != "sat" {
		return "\nreplay: the solvers returned no model for this obligation (status " + o.Status + "): no-failing-input-found\n"
	}
	fn := r.Fn
	if fn == nil {
		return "\nreplay: lemma obligation, nothing to execute\n"
	}
	// receiver handling
	var callPrefix string
	params := fn.Params
	if recv := fn.Signature.Recv(); recv != nil {
		if !isEmptyStruct(recv.Type()) {
			return "\nreplay: not attempted (method with a non-trivial receiver of type " + recv.Type().String() + "); no-failing-input-found\n"
		}
		callPrefix = typeLit(recv.Type()) + "{}."
		params = params[1:]
	}
	termMu.Lock()
	asserts := prefixAssumptions(r, o)
	asserts = append(asserts, And(o.Guard, Not(o.Goal)))
	script := buildScript(asserts, false)
	termMu.Unlock()
	rp := &replayer{script: script, answers: map[string]string{}}
	for _, p := range params {
		rp.plan1(quoteSym("p$"+sanitize(p.Name())), p.Type())
	}
	if rp.unsupp != "" {
		return "\nreplay: not attempted (" + rp.unsupp + "); no-failing-input-found\n"
	}
	if !rp.runQueries() {
		return "\nreplay: the model could not be read back; no-failing-input-found\n"
	}
	for _, p := range params {
		rp.plan2(quoteSym("p$"+sanitize(p.Name())), p.Type())
	}
	if rp.unsupp != "" {
		return "\nreplay: not attempted (" + rp.unsupp + "); no-failing-input-found\n"
	}
	if !rp.runQueries() {
		return "\nreplay: the model could not be read back; no-failing-input-found\n"
	}
	var args []string
	for _, p := range params {
		args = append(args, rp.render(quoteSym("p$"+sanitize(p.Name())), p.Type()))
	}
	pkgName := fn.Pkg.Pkg.Name()
	call := fmt.Sprintf("%s%s(%s)", callPrefix, fn.Name(), strings.Join(args, ", "))
	if fn.Signature.Variadic() && len(args) > 0 {
		call = fmt.Sprintf("%s%s(%s...)", callPrefix, fn.Name(), strings.Join(args, ", "))
	}
	nres := fn.Signature.Results().Len()
	lhs := ""
	if nres > 0 {
		var us []string
		for i := 0; i < nres; i++ {
			us = append(us, fmt.Sprintf("r%d", i))
		}
		lhs = strings.Join(us, ", ") + " := "
	}
	var printRes strings.Builder
	for i := 0; i < nres; i++ {
		fmt.Fprintf(&printRes, "\tfmt.Printf(\"ZZREPLAY result%d = %%#v\\n\", r%d)\n", i, i)
	}
	src := fmt.Sprintf(`package %s

import (
	"fmt"
	"math/big"
	"testing"
)

func zzBig(s string) *big.Int { n, _ := new(big.Int).SetString(s, 10); return n }

var _ = zzBig

// Replay of the solver's counterexample for obligation
//   %s
func TestZZReplay(t *testing.T) {
	defer func() {
		if r := recover(); r != nil {
			fmt.Printf("ZZREPLAY panic: %%v\n", r)
		}
	}()
	%s%s
%s	fmt.Println("ZZREPLAY returned")
}
`, pkgName, o.Name, lhs, call, printRes.String())
	dir := filepath.Join("/verif/replay", "src")
	os.MkdirAll(dir, 0o755)
	testFile := filepath.Join(dir, sanitize(o.Name)+"_test.go")
	os.WriteFile(testFile, []byte(src), 0o644)
	pkgDir := repoDir
	if pkgName == "sexp" {
		pkgDir = filepath.Join(repoDir, "sexp")
	}
	ov := map[string]map[string]string{"Replace": {filepath.Join(pkgDir, "zz_verif_replay_test.go"): testFile}}
	ob, _ := json.Marshal(ov)
	ovf := filepath.Join(dir, sanitize(o.Name)+".overlay.json")
	os.WriteFile(ovf, ob, 0o644)
	cmd := exec.Command("bash", "-c", fmt.Sprintf("ulimit -v 8000000; cd %s && go test -overlay %s -vet=off -count=1 -v -run '^TestZZReplay$' -timeout 60s .", pkgDir, ovf))
	cmd.Env = append(os.Environ(), "GOFLAGS=-mod=mod", "GOPROXY=off", "GOSUMDB=off", "GOTOOLCHAIN=local")
	out, _ := cmd.CombinedOutput()
	outS := string(out)
	var sb strings.Builder
	fmt.Fprintf(&sb, "\nreplay test: %s\nreplay call: %s\n", testFile, call)
	panicked := strings.Contains(outS, "ZZREPLAY panic:") || strings.Contains(outS, "panic:")
	returned := strings.Contains(outS, "ZZREPLAY returned")
	for _, ln := range strings.Split(outS, "\n") {
		if strings.Contains(ln, "ZZREPLAY") || strings.HasPrefix(ln, "panic:") || strings.Contains(ln, "FAIL") {
			sb.WriteString("  " + ln + "\n")
		}
	}
	kind := o.Kind
	if i := strings.Index(kind, ":"); i >= 0 {
		kind = kind[:i]
	}
	switch {
	case safetyKinds[kind] && panicked:
		o.Replayed = true
		sb.WriteString("replay: REPRODUCED - the real code panics on the counterexample\n")
	case safetyKinds[kind] && returned:
		sb.WriteString("replay: not reproduced (the call returned normally); no-failing-input-found\n")
	case !safetyKinds[kind]:
		sb.WriteString("replay: the call was executed on the counterexample (results above); the violated clause is not evaluated dynamically: no-failing-input-found\n")
	default:
		sb.WriteString("replay: inconclusive\n" + trunc(outS, 1500) + "\n")
	}
	return sb.String()
}

var _ = ssa.NewProgram
