package main

// Replay of solver counterexamples against the real code (go test -overlay).

func tryReplay(r *FuncResult, o *Obl) string {
	return "\nreplay: not available for this obligation kind (no-failing-input-found)\n"
}
