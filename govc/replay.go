package main

// Replay of solver counterexamples against the real code.
//
// For a failed obligation with a model (status sat):
//   1. the query is re-run in an interactive z3 session and the model is read
//      back lazily with (get-value ..): the function's parameters and the part
//      of the entry heap reachable from them (structs behind pointers, byte and
//      struct slices, interfaces whose dynamic type is one of the package's
//      types, *big.Int values) are materialised as Go values;
//   2. the contract's requires/ensures clauses are compiled to Go (a runtime
//      assertion checker for the fragment of the contract language without
//      ghost state: old(), ==>, <==>, ===, forall over ranges, typeis/unbox,
//      bytes(), be16/32/64, macros);
//   3. a test that builds the input, evaluates the preconditions, calls the
//      real function and evaluates the violated clause is run through
//      `go test -overlay` (nothing is written to /repo).
// A safety obligation counts as reproduced when the call panics at the source
// position of the obligation; a postcondition counts as reproduced when the
// compiled clause evaluates to false on the real execution while every
// compiled precondition evaluated to true.  Everything else is reported as
// no-failing-input-found together with what was tried.

import (
	"bufio"
	"encoding/json"
	"fmt"
	"go/token"
	"go/types"
	"io"
	"math/big"
	"os"
	"os/exec"
	"path/filepath"
	"sort"
	"strings"
	"time"

	"golang.org/x/tools/go/ssa"
)

// ---------- interactive model session ----------

type rsession struct {
	cmd   *exec.Cmd
	in    io.WriteCloser
	out   *bufio.Reader
	dead  bool
	count int
	start time.Time
}

func startSession(script string) (*rsession, string) {
	cmd := exec.Command("z3-new", "-in", "-smt2", "-T:120")
	in, _ := cmd.StdinPipe()
	outp, _ := cmd.StdoutPipe()
	cmd.Stderr = nil
	if err := cmd.Start(); err != nil {
		return nil, "cannot start z3-new: " + err.Error()
	}
	s := &rsession{cmd: cmd, in: in, out: bufio.NewReaderSize(outp, 1<<20), start: time.Now()}
	go func() {
		time.Sleep(150 * time.Second)
		_ = cmd.Process.Kill()
	}()
	io.WriteString(in, script)
	for {
		line, err := s.out.ReadString('\n')
		l := strings.TrimSpace(line)
		if l == "sat" {
			return s, "sat"
		}
		if l == "unsat" || l == "unknown" || l == "timeout" {
			s.close()
			return nil, l
		}
		if err != nil {
			s.close()
			return nil, "solver ended without an answer"
		}
	}
}

func (s *rsession) close() {
	if s == nil || s.dead {
		return
	}
	s.dead = true
	s.in.Close()
	_ = s.cmd.Process.Kill()
	_ = s.cmd.Wait()
}

// readSexp reads one balanced s-expression (or a bare atom line).
func (s *rsession) readSexp() (string, bool) {
	var sb strings.Builder
	depth := 0
	started := false
	inStr := false
	inBar := false
	for {
		c, err := s.out.ReadByte()
		if err != nil {
			s.dead = true
			return sb.String(), false
		}
		if !started {
			if c == ' ' || c == '\n' || c == '\t' || c == '\r' {
				continue
			}
			started = true
			if c != '(' {
				// atom: read to end of line
				sb.WriteByte(c)
				rest, _ := s.out.ReadString('\n')
				sb.WriteString(strings.TrimSpace(rest))
				return sb.String(), true
			}
		}
		sb.WriteByte(c)
		switch {
		case inStr:
			if c == '"' {
				inStr = false
			}
		case inBar:
			if c == '|' {
				inBar = false
			}
		case c == '"':
			inStr = true
		case c == '|':
			inBar = true
		case c == '(':
			depth++
		case c == ')':
			depth--
			if depth == 0 {
				return sb.String(), true
			}
		}
	}
}

// sexp tree
type sx struct {
	atom string
	kids []*sx
}

func parseSx(s string) *sx {
	pos := 0
	var parse func() *sx
	skip := func() {
		for pos < len(s) && (s[pos] == ' ' || s[pos] == '\n' || s[pos] == '\t' || s[pos] == '\r') {
			pos++
		}
	}
	parse = func() *sx {
		skip()
		if pos >= len(s) {
			return nil
		}
		if s[pos] == '(' {
			pos++
			n := &sx{}
			for {
				skip()
				if pos >= len(s) {
					return n
				}
				if s[pos] == ')' {
					pos++
					return n
				}
				k := parse()
				if k == nil {
					return n
				}
				n.kids = append(n.kids, k)
			}
		}
		st := pos
		if s[pos] == '|' {
			pos++
			for pos < len(s) && s[pos] != '|' {
				pos++
			}
			pos++
			return &sx{atom: s[st:pos]}
		}
		if s[pos] == '"' {
			pos++
			for pos < len(s) && s[pos] != '"' {
				pos++
			}
			pos++
			return &sx{atom: s[st:pos]}
		}
		for pos < len(s) && !strings.ContainsRune(" \n\t\r()", rune(s[pos])) {
			pos++
		}
		return &sx{atom: s[st:pos]}
	}
	return parse()
}

func (n *sx) String() string {
	if n == nil {
		return ""
	}
	if n.kids == nil && n.atom != "" {
		return n.atom
	}
	var ps []string
	for _, k := range n.kids {
		ps = append(ps, k.String())
	}
	return "(" + strings.Join(ps, " ") + ")"
}

// value evaluates a closed SMT term in the session's model.
func (s *rsession) value(term string) (*sx, bool) {
	if s == nil || s.dead || s.count > 6000 || time.Since(s.start) > 100*time.Second {
		return nil, false
	}
	s.count++
	fmt.Fprintf(s.in, "(get-value (%s))\n", term)
	txt, ok := s.readSexp()
	if !ok {
		return nil, false
	}
	t := parseSx(txt)
	if t == nil || len(t.kids) != 1 || len(t.kids[0].kids) != 2 {
		return nil, false
	}
	return t.kids[0].kids[1], true
}

func parseNum(s string) (*big.Int, bool) {
	n := new(big.Int)
	switch {
	case strings.HasPrefix(s, "#x"):
		_, ok := n.SetString(s[2:], 16)
		return n, ok
	case strings.HasPrefix(s, "#b"):
		_, ok := n.SetString(s[2:], 2)
		return n, ok
	case strings.HasPrefix(s, "(- "):
		_, ok := n.SetString(strings.TrimSuffix(s[3:], ")"), 10)
		return n.Neg(n), ok
	}
	_, ok := n.SetString(s, 10)
	return n, ok
}

// ---------- rendering model values as Go ----------

type renderer struct {
	pre     *State
	sess    *rsession
	pkg     *types.Package
	decls   []string
	alias   map[string]string
	imports map[string]string // path -> local name
	notes   map[string]bool
	n       int
}

func (r *renderer) note(f string, a ...interface{}) { r.notes[fmt.Sprintf(f, a...)] = true }

func (r *renderer) fresh(p string) string {
	r.n++
	return fmt.Sprintf("zz%s%d", p, r.n)
}

// typeLit prints a type as Go source valid inside the package under test; ok is
// false when the type cannot be named there (unexported type of another package).
func (r *renderer) typeLit(T types.Type) (string, bool) {
	ok := true
	s := types.TypeString(T, func(p *types.Package) string {
		if p == r.pkg {
			return ""
		}
		r.imports[p.Path()] = p.Name()
		return p.Name()
	})
	var visit func(t types.Type, depth int)
	visit = func(t types.Type, depth int) {
		if depth > 6 {
			return
		}
		switch u := t.(type) {
		case *types.Named:
			if u.Obj().Pkg() != nil && u.Obj().Pkg() != r.pkg && !u.Obj().Exported() {
				ok = false
			}
		case *types.Pointer:
			visit(u.Elem(), depth+1)
		case *types.Slice:
			visit(u.Elem(), depth+1)
		case *types.Array:
			visit(u.Elem(), depth+1)
		case *types.Map:
			visit(u.Key(), depth+1)
			visit(u.Elem(), depth+1)
		}
	}
	visit(T, 0)
	return s, ok
}

func (r *renderer) num(t *Term) (*big.Int, bool) {
	v, ok := r.sess.value(t.String())
	if !ok {
		return nil, false
	}
	return parseNum(v.String())
}

func (r *renderer) boolean(t *Term) (bool, bool) {
	v, ok := r.sess.value(t.String())
	if !ok {
		return false, false
	}
	return v.String() == "true", v.String() == "true" || v.String() == "false"
}

const maxReplayBytes = 2048
const maxReplayElems = 24
const maxReplayDepth = 7

func isBigInt(T types.Type) bool {
	n, ok := T.(*types.Named)
	return ok && n.Obj().Name() == "Int" && n.Obj().Pkg() != nil && n.Obj().Pkg().Path() == "math/big"
}

func (r *renderer) zero(T types.Type) string {
	tl, ok := r.typeLit(T)
	if !ok {
		return "nil"
	}
	switch T.Underlying().(type) {
	case *types.Basic:
		b := T.Underlying().(*types.Basic)
		switch {
		case b.Info()&types.IsBoolean != 0:
			return tl + "(false)"
		case b.Info()&types.IsString != 0:
			return tl + `("")`
		case b.Info()&types.IsNumeric != 0:
			return tl + "(0)"
		}
		return "nil"
	case *types.Struct, *types.Array:
		return tl + "{}"
	}
	return "(" + tl + ")(nil)"
}

// value renders the model value of term t (of Go type T) as a Go expression.
func (r *renderer) value(t *Term, T types.Type, depth int) (out string) {
	defer func() {
		if e := recover(); e != nil {
			if u, ok := e.(unsupported); ok {
				r.note("not materialised (%s): %s", types.TypeString(T, nil), u.msg)
				out = r.zero(T)
				return
			}
			panic(e)
		}
	}()
	tl, nameable := r.typeLit(T)
	if !nameable {
		r.note("value of type %s cannot be named from the package: left nil", T)
		return "nil"
	}
	if depth > maxReplayDepth {
		r.note("heap deeper than %d levels: left zero", maxReplayDepth)
		return r.zero(T)
	}
	switch u := T.Underlying().(type) {
	case *types.Basic:
		switch {
		case u.Info()&types.IsBoolean != 0:
			b, ok := r.boolean(t)
			if !ok {
				return r.zero(T)
			}
			return fmt.Sprintf("%s(%v)", tl, b)
		case u.Info()&types.IsInteger != 0:
			n, ok := r.num(t)
			if !ok {
				return r.zero(T)
			}
			w, sg := intSize(u)
			if sg && n.Sign() >= 0 && n.Bit(w-1) == 1 {
				n.Sub(n, new(big.Int).Lsh(big.NewInt(1), uint(w)))
			}
			return fmt.Sprintf("%s(%s)", tl, n.String())
		case u.Info()&types.IsString != 0:
			n, ok := r.num(UF("str_len", BV(64), t))
			if !ok || n.Sign() < 0 || n.Cmp(big.NewInt(512)) > 0 {
				if ok {
					r.note("string of length %s in the model: left empty", n)
				}
				return r.zero(T)
			}
			var bs []byte
			for i := int64(0); i < n.Int64(); i++ {
				b, ok := r.num(UF("str_at", BV(8), t, bv64(i)))
				if !ok {
					return r.zero(T)
				}
				bs = append(bs, byte(b.Int64()))
			}
			return fmt.Sprintf("%s(%q)", tl, string(bs))
		}
		r.note("value of basic type %s: left zero", T)
		return r.zero(T)
	case *types.Pointer:
		isNull, ok := r.boolean(Eq(t, Null))
		if !ok || isNull {
			return "(" + tl + ")(nil)"
		}
		refv, ok := r.sess.value(t.String())
		if !ok {
			return "(" + tl + ")(nil)"
		}
		key := refv.String() + "|" + typeKey(u.Elem())
		if v, ok := r.alias[key]; ok {
			return v
		}
		if isBigInt(u.Elem()) {
			v := r.fresh("b")
			val := "0"
			if _, ok := memArrays["G$val"]; ok {
				if n, ok := r.num(Select(r.pre.get("G$val", memArrays["G$val"]), t)); ok {
					val = n.String()
				}
			}
			r.imports["math/big"] = "big"
			r.decls = append(r.decls, fmt.Sprintf("%s, _ := new(big.Int).SetString(%q, 10)", v, val))
			r.alias[key] = v
			return v
		}
		if !strings.HasSuffix(refv.String(), " proot)") {
			r.note("interior pointer %s in the model: materialised as a separate object", refv)
		}
		etl, ok2 := r.typeLit(u.Elem())
		if !ok2 {
			return "(" + tl + ")(nil)"
		}
		v := r.fresh("p")
		r.decls = append(r.decls, fmt.Sprintf("%s := new(%s)", v, etl))
		r.alias[key] = v
		switch eu := u.Elem().Underlying().(type) {
		case *types.Struct:
			r.fillStruct("(*"+v+")", t, u.Elem(), eu, depth+1)
		default:
			val := r.value(r.pre.load(t, u.Elem()), u.Elem(), depth+1)
			r.decls = append(r.decls, fmt.Sprintf("*%s = %s", v, val))
		}
		return v
	case *types.Slice:
		isNull, ok := r.boolean(Eq(Acc("sbase", t), Null))
		if !ok || isNull {
			return "(" + tl + ")(nil)"
		}
		ln, ok1 := r.num(Acc("slen", t))
		cp, ok2 := r.num(Acc("scap", t))
		if !ok1 || !ok2 {
			return "(" + tl + ")(nil)"
		}
		lim := int64(maxReplayElems)
		if eb, ok := u.Elem().Underlying().(*types.Basic); ok && eb.Info()&types.IsInteger != 0 {
			lim = maxReplayBytes
		}
		etl, _ := r.typeLit(u.Elem())
		if ln.Sign() < 0 || ln.Cmp(big.NewInt(lim)) > 0 {
			r.note("slice of length %s in the model: too large to materialise, replaced by an empty non-nil slice", ln)
			return fmt.Sprintf("%s(make([]%s, 0))", tl, etl)
		}
		var parts []string
		arr := Select(r.pre.amem(u.Elem()), Acc("sbase", t))
		for i := int64(0); i < ln.Int64(); i++ {
			parts = append(parts, r.value(Select(arr, BVAdd(Acc("soff", t), bv64(i))), u.Elem(), depth+1))
		}
		lit := fmt.Sprintf("[]%s{%s}", etl, strings.Join(parts, ", "))
		if cp.Cmp(ln) > 0 && cp.Cmp(big.NewInt(lim)) <= 0 {
			lit = fmt.Sprintf("append(make([]%s, 0, %d), %s...)", etl, cp.Int64(), lit)
		}
		return fmt.Sprintf("%s(%s)", tl, lit)
	case *types.Struct:
		si := structInfo(T)
		var parts []string
		for i, f := range si.Fields {
			if !r.fieldAccessible(T, u, i) {
				continue
			}
			v := r.value(StructField(si, t, i), f.T, depth+1)
			if v == r.zero(f.T) || v == "nil" {
				continue
			}
			parts = append(parts, fmt.Sprintf("%s: %s", f.Name, v))
		}
		return fmt.Sprintf("%s{%s}", tl, strings.Join(parts, ", "))
	case *types.Array:
		if u.Len() > 64 {
			r.note("array of %d elements: left zero", u.Len())
			return tl + "{}"
		}
		var parts []string
		for i := int64(0); i < u.Len(); i++ {
			parts = append(parts, r.value(Select(t, bv64(i)), u.Elem(), depth+1))
		}
		return fmt.Sprintf("%s{%s}", tl, strings.Join(parts, ", "))
	case *types.Interface:
		tag, ok := r.num(Acc("itag", t))
		if !ok || tag.Sign() == 0 {
			return "(" + tl + ")(nil)"
		}
		var dyn types.Type
		if tag.IsInt64() && tag.Int64() > 0 && int(tag.Int64()) < len(prog.TagType) {
			dyn = prog.TagType[tag.Int64()]
		}
		if dyn == nil || !types.AssignableTo(dyn, T) {
			// the model leaves the dynamic type open (nothing on the path depends on it): take the
			// first of the package's own types that implements the interface
			dyn = nil
			for _, it := range append(closedImpls(T), prog.IfaceImpls...) {
				if _, ok := r.typeLit(it); ok && types.AssignableTo(it, T) {
					dyn = it
					break
				}
			}
			if dyn == nil {
				r.note("non-nil interface %s whose dynamic type the model leaves open and no constructible implementation: left nil", types.TypeString(T, nil))
				return "(" + tl + ")(nil)"
			}
			r.note("non-nil interface %s whose dynamic type the model leaves open: %s chosen", types.TypeString(T, nil), types.TypeString(dyn, nil))
		}
		dtl, ok2 := r.typeLit(dyn)
		if !ok2 {
			r.note("interface value of dynamic type %s cannot be constructed from the package: left nil", dyn)
			return "(" + tl + ")(nil)"
		}
		switch dyn.Underlying().(type) {
		case *types.Pointer:
			return fmt.Sprintf("%s(%s)", tl, r.value(Acc("iref", t), dyn, depth+1))
		case *types.Struct:
			if isEmptyStruct(dyn) {
				return fmt.Sprintf("%s(%s{})", tl, dtl)
			}
		}
		return fmt.Sprintf("%s(%s)", tl, r.value(r.pre.load(Acc("iref", t), dyn), dyn, depth+1))
	case *types.Signature:
		fid, ok := r.num(Acc("fid", t))
		if !ok || fid.Sign() == 0 || !fid.IsInt64() || int(fid.Int64()) >= len(prog.FuncByID) {
			return "nil"
		}
		fn := prog.FuncByID[fid.Int64()]
		if fn != nil && fn.Parent() == nil && len(fn.FreeVars) == 0 && fn.Signature.Recv() == nil && fn.Pkg != nil && fn.Pkg.Pkg == r.pkg {
			return fn.Name()
		}
		r.note("function value in the model: left nil")
		return "nil"
	}
	r.note("value of type %s: left zero", T)
	return r.zero(T)
}

func (r *renderer) fieldAccessible(T types.Type, st *types.Struct, i int) bool {
	f := st.Field(i)
	if f.Name() == "_" {
		return false
	}
	if f.Exported() {
		return true
	}
	return f.Pkg() == r.pkg
}

// fillStruct assigns the accessible fields of the struct at address addr.
func (r *renderer) fillStruct(lv string, addr *Term, T types.Type, st *types.Struct, depth int) {
	si := structInfo(T)
	for i, f := range si.Fields {
		if !r.fieldAccessible(T, st, i) {
			if _, isB := f.T.Underlying().(*types.Basic); !isB {
				r.note("unexported field %s.%s of another package: left zero", types.TypeString(T, nil), f.Name)
			}
			continue
		}
		func() {
			defer func() {
				if e := recover(); e != nil {
					if u, ok := e.(unsupported); ok {
						r.note("field %s not materialised: %s", f.Name, u.msg)
						return
					}
					panic(e)
				}
			}()
			fa := FldRef(addr, i, si.Key)
			if fs, ok := f.T.Underlying().(*types.Struct); ok {
				if fs.NumFields() > 0 {
					r.fillStruct(lv+"."+f.Name, fa, f.T, fs, depth)
				}
				return
			}
			v := r.value(r.pre.load(fa, f.T), f.T, depth)
			if v != r.zero(f.T) && v != "nil" {
				r.decls = append(r.decls, fmt.Sprintf("%s.%s = %s", lv, f.Name, v))
			}
		}()
	}
}

// ---------- contracts compiled to Go ----------

type ctrans struct {
	fn      *ssa.Function
	sp      *FuncSpec
	bound   map[string]bool
	olds    []string // statements evaluated before the call
	nold    int
	subst   map[string]*CExpr
	results map[string]string
	why     string
	inOld   bool
	inRequires bool
}

func (c *ctrans) fail(f string, a ...interface{}) string {
	if c.why == "" {
		c.why = fmt.Sprintf(f, a...)
	}
	return "false"
}

var goBinOps = map[string]bool{"==": true, "!=": true, "<": true, "<=": true, ">": true, ">=": true, "+": true, "-": true, "*": true, "/": true, "%": true, "&": true, "|": true, "^": true, "<<": true, ">>": true, "&&": true, "||": true, "&^": true}

func isLiteralish(e *CExpr) bool {
	switch e.Op {
	case "num", "char", "str":
		return true
	case "id":
		return e.Name == "nil" || e.Name == "true" || e.Name == "false"
	case "un":
		return isLiteralish(e.Args[0])
	}
	return false
}

func mentionsBound(e *CExpr, bound map[string]bool) bool {
	if e == nil {
		return false
	}
	if e.Op == "id" && bound[e.Name] {
		return true
	}
	for _, a := range e.Args {
		if mentionsBound(a, bound) {
			return true
		}
	}
	return false
}

func (c *ctrans) tr(e *CExpr) string {
	if e == nil {
		return ""
	}
	switch e.Op {
	case "num":
		return e.Name
	case "char":
		return e.Name
	case "str":
		return fmt.Sprintf("%q", e.Name)
	case "id":
		if s, ok := c.subst[e.Name]; ok {
			saved := c.subst
			c.subst = nil
			out := c.tr(s)
			c.subst = saved
			return out
		}
		if c.bound[e.Name] {
			return e.Name
		}
		if r, ok := c.results[e.Name]; ok {
			if c.inOld {
				return c.fail("old() of a result")
			}
			return r
		}
		if m, ok := specs.Macros[e.Name]; ok && len(m.Params) == 0 {
			return c.tr(m.Body)
		}
		if _, isGhost := specs.GhostFields[e.Name]; isGhost {
			return c.fail("ghost state %s", e.Name)
		}
		return e.Name
	case "un":
		return "(" + e.Name + c.tr(e.Args[0]) + ")"
	case "star":
		return "(*" + c.tr(e.Args[0]) + ")"
	case "field":
		if e.Name == "*" {
			return "(*" + c.tr(e.Args[0]) + ")"
		}
		return c.tr(e.Args[0]) + "." + e.Name
	case "index":
		return c.tr(e.Args[0]) + "[" + c.tr(e.Args[1]) + "]"
	case "slice":
		return c.tr(e.Args[0]) + "[" + c.tr(e.Args[1]) + ":" + c.tr(e.Args[2]) + "]"
	case "bin":
		a, b := e.Args[0], e.Args[1]
		switch e.Name {
		case "==>":
			return "(!(" + c.tr(a) + ") || (" + c.tr(b) + "))"
		case "<==>":
			return "((" + c.tr(a) + ") == (" + c.tr(b) + "))"
		case "===", "==", "!==", "!=":
			neg := ""
			if strings.HasPrefix(e.Name, "!") {
				neg = "!"
			}
			if isBigExpr(a) || isBigExpr(b) {
				op := "=="
				if neg != "" {
					op = "!="
				}
				return "(zzCmp(" + c.trBig(a) + ", " + c.trBig(b) + ") " + op + " 0)"
			}
			if isLiteralish(a) || isLiteralish(b) {
				op := "=="
				if neg != "" {
					op = "!="
				}
				return "(" + c.tr(a) + " " + op + " " + c.tr(b) + ")"
			}
			return "(" + neg + "zzEq(" + c.tr(a) + ", " + c.tr(b) + "))"
		}
		if goBinOps[e.Name] {
			switch e.Name {
			case "<", "<=", ">", ">=":
				if isBigExpr(a) || isBigExpr(b) {
					return "(zzCmp(" + c.trBig(a) + ", " + c.trBig(b) + ") " + e.Name + " 0)"
				}
			}
			return "(" + c.tr(a) + " " + e.Name + " " + c.tr(b) + ")"
		}
		return c.fail("operator %s", e.Name)
	case "forall", "exists":
		if len(e.Args) != 3 {
			return c.fail("unbounded quantifier")
		}
		if c.bound == nil {
			c.bound = map[string]bool{}
		}
		lo, hi := c.tr(e.Args[1]), c.tr(e.Args[2])
		was := c.bound[e.Name]
		c.bound[e.Name] = true
		body := c.tr(e.Args[0])
		c.bound[e.Name] = was
		if e.Op == "forall" {
			return fmt.Sprintf("func() bool { for %s := int(%s); %s < int(%s); %s++ { if !(%s) { return false } }; return true }()", e.Name, lo, e.Name, hi, e.Name, body)
		}
		return fmt.Sprintf("func() bool { for %s := int(%s); %s < int(%s); %s++ { if %s { return true } }; return false }()", e.Name, lo, e.Name, hi, e.Name, body)
	case "call":
		if m, ok := specs.Macros[e.Name]; ok {
			if len(m.Params) != len(e.Args) {
				return c.fail("macro arity %s", e.Name)
			}
			// substitute arguments (already-translated text cannot be substituted, so expand on the AST)
			sub := map[string]*CExpr{}
			for i, p := range m.Params {
				sub[p] = c.expand(e.Args[i])
			}
			saved := c.subst
			c.subst = sub
			out := c.tr(m.Body)
			c.subst = saved
			return out
		}
		if _, ok := specs.Ghosts[e.Name]; ok && !boundGhost[e.Name] {
			return c.fail("ghost function %s", e.Name)
		}
		if _, ok := specs.GhostFields[e.Name]; ok && e.Name != "val" {
			return c.fail("ghost state %s", e.Name)
		}
		if isBigExpr(e) {
			return c.fail("big-number term outside a comparison")
		}
		arg := func(i int) string { return c.tr(e.Args[i]) }
		switch e.Name {
		case "len", "cap":
			return e.Name + "(" + arg(0) + ")"
		case "old":
			if c.inOld {
				return arg(0)
			}
			if mentionsBound(c.expand(e.Args[0]), c.bound) {
				return c.fail("old() under a quantifier")
			}
			c.inOld = true
			v := arg(0)
			c.inOld = false
			c.nold++
			name := fmt.Sprintf("zzold%d", c.nold)
			c.olds = append(c.olds, fmt.Sprintf("%s := %s", name, v))
			return name
		case "typeis":
			return fmt.Sprintf("func() bool { _, ok := interface{}(%s).(%s); return ok }()", arg(0), arg(1))
		case "typeisptr":
			return fmt.Sprintf("func() bool { _, ok := interface{}(%s).(*%s); return ok }()", arg(0), arg(1))
		case "unbox":
			return fmt.Sprintf("interface{}(%s).(%s)", arg(0), arg(1))
		case "bytes":
			return "string(" + arg(0) + ")"
		case "countsep":
			return "uint64(strings.Count(" + arg(0) + ", string([]byte{byte(" + arg(1) + ")})))"
		case "bs_sub":
			return "(" + arg(0) + ")[int(" + arg(1) + "):int(" + arg(1) + ")+int(" + arg(2) + ")]"
		case "bs_len":
			return "uint64(len(" + arg(0) + "))"
		case "payloadNonNil":
			return "(!zzNilPayload(" + arg(0) + "))"
		case "nonglobal":
			if c.inRequires {
				return "true" // materialised inputs are freshly allocated
			}
			return c.fail("builtin nonglobal")
		case "be16", "be32", "be64":
			return fmt.Sprintf("zzBE(%s, int(%s), %s)", arg(0), arg(1), strings.TrimPrefix(e.Name, "be"))
		case "ite":
			return c.fail("ite")
		case "int", "int8", "int16", "int32", "int64", "uint", "uint8", "uint16", "uint32", "uint64", "byte", "string":
			return e.Name + "(" + arg(0) + ")"
		}
		// conversion to a named type of the package
		if c.fn != nil && c.fn.Pkg != nil {
			if obj := c.fn.Pkg.Pkg.Scope().Lookup(e.Name); obj != nil {
				if _, isT := obj.(*types.TypeName); isT && len(e.Args) == 1 {
					return e.Name + "(" + arg(0) + ")"
				}
			}
		}
		return c.fail("builtin %s", e.Name)
	}
	return c.fail("expression %s", e)
}

var boundGhost = map[string]bool{"countsep": true, "bs_sub": true, "bs_len": true, "nat": true, "powmod": true, "invmod": true}

// isBigExpr: the expression denotes a mathematical integer built from *big.Int values.
func isBigExpr(e *CExpr) bool {
	if e == nil {
		return false
	}
	switch e.Op {
	case "call":
		switch e.Name {
		case "val", "nat", "powmod", "invmod":
			return true
		}
	case "bin":
		switch e.Name {
		case "+", "-", "*", "%":
			return isBigExpr(e.Args[0]) || isBigExpr(e.Args[1])
		}
	}
	return false
}

// trBig translates a mathematical-integer expression to a *big.Int valued Go expression.
func (c *ctrans) trBig(e *CExpr) string {
	if s, ok := c.subst[e.Name]; ok && e.Op == "id" {
		saved := c.subst
		c.subst = nil
		out := c.trBig(s)
		c.subst = saved
		return out
	}
	switch e.Op {
	case "call":
		switch e.Name {
		case "val":
			return "zzVal(" + c.tr(e.Args[0]) + ")"
		case "nat":
			return "new(big.Int).SetBytes([]byte(" + c.tr(e.Args[0]) + "))"
		case "powmod":
			return "new(big.Int).Exp(" + c.trBig(e.Args[0]) + ", " + c.trBig(e.Args[1]) + ", " + c.trBig(e.Args[2]) + ")"
		case "invmod":
			return "new(big.Int).ModInverse(" + c.trBig(e.Args[0]) + ", " + c.trBig(e.Args[1]) + ")"
		}
	case "bin":
		switch e.Name {
		case "+":
			return "new(big.Int).Add(" + c.trBig(e.Args[0]) + ", " + c.trBig(e.Args[1]) + ")"
		case "-":
			return "new(big.Int).Sub(" + c.trBig(e.Args[0]) + ", " + c.trBig(e.Args[1]) + ")"
		case "*":
			return "new(big.Int).Mul(" + c.trBig(e.Args[0]) + ", " + c.trBig(e.Args[1]) + ")"
		case "%":
			return "new(big.Int).Mod(" + c.trBig(e.Args[0]) + ", " + c.trBig(e.Args[1]) + ")"
		}
	}
	return "zzVal(" + c.tr(e) + ")"
}

// expand applies the current macro substitution to an argument expression.
func (c *ctrans) expand(e *CExpr) *CExpr {
	if e == nil || c.subst == nil {
		return e
	}
	if e.Op == "id" {
		if s, ok := c.subst[e.Name]; ok {
			return s
		}
		return e
	}
	n := *e
	n.Args = make([]*CExpr, len(e.Args))
	for i, a := range e.Args {
		n.Args[i] = c.expand(a)
	}
	return &n
}

const replayHelpers = `
func zzIsInt(k reflect.Kind) bool { return k >= reflect.Int && k <= reflect.Uintptr }
func zzBigOf(v reflect.Value) *big.Int {
	if v.Kind() >= reflect.Int && v.Kind() <= reflect.Int64 {
		return big.NewInt(v.Int())
	}
	return new(big.Int).SetUint64(v.Uint())
}
func zzEq(a, b interface{}) bool { return zzEqV(reflect.ValueOf(a), reflect.ValueOf(b)) }
func zzEqV(a, b reflect.Value) bool {
	if !a.IsValid() || !b.IsValid() {
		return a.IsValid() == b.IsValid()
	}
	if zzIsInt(a.Kind()) && zzIsInt(b.Kind()) {
		return zzBigOf(a).Cmp(zzBigOf(b)) == 0
	}
	if a.Type() != b.Type() {
		return false
	}
	switch a.Kind() {
	case reflect.Slice:
		return a.Len() == b.Len() && a.IsNil() == b.IsNil() && (a.Len() == 0 || a.Pointer() == b.Pointer())
	case reflect.Struct:
		for i := 0; i < a.NumField(); i++ {
			if !zzEqV(a.Field(i), b.Field(i)) {
				return false
			}
		}
		return true
	case reflect.Array:
		for i := 0; i < a.Len(); i++ {
			if !zzEqV(a.Index(i), b.Index(i)) {
				return false
			}
		}
		return true
	case reflect.Interface:
		if a.IsNil() || b.IsNil() {
			return a.IsNil() == b.IsNil()
		}
		return zzEqV(a.Elem(), b.Elem())
	case reflect.Ptr, reflect.Map, reflect.Chan, reflect.Func, reflect.UnsafePointer:
		return a.Pointer() == b.Pointer()
	case reflect.String:
		return a.String() == b.String()
	case reflect.Bool:
		return a.Bool() == b.Bool()
	case reflect.Float32, reflect.Float64:
		return a.Float() == b.Float()
	}
	return false
}
func zzVal(x interface{}) *big.Int {
	if b, ok := x.(*big.Int); ok {
		if b == nil {
			panic("val of a nil *big.Int")
		}
		return b
	}
	v := reflect.ValueOf(x)
	if zzIsInt(v.Kind()) {
		return zzBigOf(v)
	}
	panic("zzVal: unsupported operand")
}
func zzCmp(a, b *big.Int) int { return a.Cmp(b) }
func zzNilPayload(x interface{}) bool {
	if x == nil {
		return true
	}
	v := reflect.ValueOf(x)
	switch v.Kind() {
	case reflect.Ptr, reflect.Map, reflect.Slice, reflect.Func, reflect.Chan, reflect.Interface:
		return v.IsNil()
	}
	return false
}
func zzBE(s []byte, off int, bits int) uint64 {
	var v uint64
	for i := 0; i < bits/8; i++ {
		v = v<<8 | uint64(s[off+i])
	}
	return v
}
func zzStack() string {
	var out []string
	for _, l := range strings.Split(string(debug.Stack()), "\n") {
		if strings.Contains(l, ".go:") {
			out = append(out, strings.TrimSpace(l))
		}
	}
	return strings.Join(out, " | ")
}
`

var safetyKinds = map[string]bool{"index": true, "slice": true, "nil": true, "nil.iface": true, "nil.func": true, "divzero": true, "typeassert": true, "makeslice": true, "alloc": true, "panic": true, "shift.negative": true}

// findClause returns the contract clause an ensures/preserves obligation was generated from.
func findClause(sp *FuncSpec, o *Obl) (*Clause, bool) {
	if sp == nil {
		return nil, false
	}
	if strings.HasPrefix(o.Snip, "preserves ") {
		src := strings.TrimPrefix(o.Snip, "preserves ")
		for _, c := range sp.Preserves {
			if c.Src == src {
				return c, true
			}
		}
		return nil, false
	}
	for _, c := range sp.Ensures {
		if c.Src == o.Snip {
			return c, false
		}
	}
	return nil, false
}

func tryReplay(r *FuncResult, o *Obl) string {
	if o.Status != "sat" {
		return "\nreplay: the solvers returned no model for this obligation (status " + o.Status + "): no-failing-input-found\n"
	}
	fn := r.Fn
	if fn == nil {
		return "\nreplay: lemma obligation, nothing to execute; no-failing-input-found\n"
	}
	if fn.Parent() != nil || len(fn.FreeVars) > 0 {
		return "\nreplay: not attempted (closure); no-failing-input-found\n"
	}
	kind := o.Kind
	if i := strings.Index(kind, ":"); i >= 0 {
		kind = kind[:i]
	}
	sp := lookupSpec(fn)
	var clause *Clause
	isPreserves := false
	if kind == "ensures" {
		clause, isPreserves = findClause(sp, o)
	}
	if !safetyKinds[kind] && clause == nil {
		return "\nreplay: not attempted (obligation of kind " + o.Kind + " has no dynamic counterpart); no-failing-input-found\n"
	}

	// 1. model session.  All memory arrays are declared so that any part of the entry heap can be read.
	termMu.Lock()
	asserts := prefixAssumptions(r, o)
	asserts = append(asserts, And(o.Guard, Not(o.Goal)))
	pre := NewState("pre")
	var extra []*Term
	var names []string
	for n := range memArrays {
		names = append(names, n)
	}
	sort.Strings(names)
	for _, n := range names {
		v := pre.get(n, memArrays[n])
		extra = append(extra, Eq(v, v))
	}
	// Eq(v,v) folds to true; declare by hand instead
	_ = extra
	body := PrintQuery(asserts)
	var sb strings.Builder
	sb.WriteString("(set-option :produce-models true)\n(set-logic ALL)\n")
	sb.WriteString(Prelude(""))
	for _, n := range names {
		decl := fmt.Sprintf("(declare-const %s %s)\n", quoteSym(n+"@pre"), memArrays[n].S)
		if !strings.Contains(body, "(declare-const "+quoteSym(n+"@pre")+" ") {
			sb.WriteString(decl)
		}
	}
	sb.WriteString(body)
	// prefer a counterexample that can be materialised: slice parameters of bounded length
	var small strings.Builder
	for _, p := range fn.Params {
		if _, ok := p.Type().Underlying().(*types.Slice); ok {
			fmt.Fprintf(&small, "(assert (bvule (slen %s) #x0000000000000400))\n", quoteSym("p$"+sanitize(p.Name())))
		}
	}
	script := sb.String() + "(check-sat)\n"
	smallScript := sb.String() + small.String() + "(check-sat)\n"
	termMu.Unlock()
	var sess *rsession
	st := ""
	if small.Len() > 0 {
		sess, st = startSession(smallScript)
	}
	if sess == nil {
		sess, st = startSession(script)
	}
	if sess == nil {
		return "\nreplay: the model could not be re-established (" + st + "); no-failing-input-found\n"
	}
	defer sess.close()

	// 2. inputs
	rd := &renderer{pre: pre, sess: sess, pkg: fn.Pkg.Pkg, alias: map[string]string{}, imports: map[string]string{}, notes: map[string]bool{}}
	var paramNames, paramVals []string
	termMu.Lock()
	for i, p := range fn.Params {
		name := p.Name()
		if name == "" || name == "_" {
			name = fmt.Sprintf("zzarg%d", i)
		}
		v := rd.value(Var("p$"+sanitize(p.Name()), sortOf(p.Type())), p.Type(), 0)
		if v == "nil" {
			tl, _ := rd.typeLit(p.Type())
			v = "(" + tl + ")(nil)"
		}
		paramNames = append(paramNames, name)
		paramVals = append(paramVals, v)
	}
	termMu.Unlock()
	if sess.dead {
		return "\nreplay: the model session ended before the input was read back; no-failing-input-found\n"
	}

	// 3. contract clauses as Go
	ct := &ctrans{fn: fn, sp: sp, results: map[string]string{}}
	nres := fn.Signature.Results().Len()
	var resVars []string
	for i := 0; i < nres; i++ {
		rv := fmt.Sprintf("zzr%d", i)
		resVars = append(resVars, rv)
		ct.results[fmt.Sprintf("result%d", i)] = rv
		if nm := fn.Signature.Results().At(i).Name(); nm != "" && nm != "_" {
			ct.results[nm] = rv
		}
		if sp != nil && i < len(sp.Results) && sp.Results[i] != "" {
			ct.results[sp.Results[i]] = rv
		}
	}
	if nres == 1 {
		ct.results["result"] = "zzr0"
	}
	// parameters shadow results of the same name in preconditions only; in Go both cannot coexist, so
	// named results that collide with parameters are not supported
	var reqSrc []string
	var reqCode []string
	if sp != nil {
		for _, rq := range sp.Requires {
			c2 := &ctrans{fn: fn, sp: sp, results: map[string]string{}, inRequires: true}
			code := c2.tr(rq.E)
			if c2.why != "" || len(c2.olds) > 0 {
				reqSrc = append(reqSrc, rq.Src+"   [not compiled: "+c2.why+"]")
				reqCode = append(reqCode, "")
				continue
			}
			reqSrc = append(reqSrc, rq.Src)
			reqCode = append(reqCode, code)
		}
	}
	clauseCode := ""
	clauseWhy := ""
	if clause != nil {
		if isPreserves {
			var parts []string
			for _, loc := range splitTop(clause.Src, ',') {
				le := parseCExpr(strings.TrimSpace(loc), "replay")
				cur := ct.tr(le)
				ct.inOld = true
				old := ct.tr(le)
				ct.inOld = false
				ct.nold++
				name := fmt.Sprintf("zzold%d", ct.nold)
				ct.olds = append(ct.olds, fmt.Sprintf("%s := %s", name, old))
				parts = append(parts, fmt.Sprintf("zzEq(%s, %s)", name, cur))
			}
			clauseCode = strings.Join(parts, " && ")
		} else {
			clauseCode = ct.tr(clause.E)
		}
		clauseWhy = ct.why
	}

	// 4. the test
	pkgName := fn.Pkg.Pkg.Name()
	var call string
	args := paramNames
	if fn.Signature.Recv() != nil {
		call = fmt.Sprintf("%s.%s(%s", paramNames[0], fn.Name(), strings.Join(paramNames[1:], ", "))
		args = paramNames[1:]
	} else {
		call = fmt.Sprintf("%s(%s", fn.Name(), strings.Join(paramNames, ", "))
	}
	if fn.Signature.Variadic() && len(args) > 0 {
		call += "..."
	}
	call += ")"
	var body2 strings.Builder
	for _, d := range rd.decls {
		body2.WriteString("\t" + d + "\n")
	}
	for i := range paramNames {
		fmt.Fprintf(&body2, "\t%s := %s\n\t_ = %s\n", paramNames[i], paramVals[i], paramNames[i])
	}
	for k := 1; k <= rd.n; k++ {
		// silence unused variables
	}
	for key, v := range rd.alias {
		_ = key
		fmt.Fprintf(&body2, "\t_ = %s\n", v)
	}
	for i, code := range reqCode {
		if code == "" {
			fmt.Fprintf(&body2, "\tfmt.Println(\"ZZREPLAY requires %d = not-compiled\")\n", i)
			continue
		}
		fmt.Fprintf(&body2, "\tfmt.Printf(\"ZZREPLAY requires %d = %%v\\n\", func() (ok bool) { defer func() { if recover() != nil { ok = false } }(); return %s }())\n", i, code)
	}
	if clauseCode != "" && clauseWhy == "" {
		for _, s := range ct.olds {
			name := strings.SplitN(s, " ", 2)[0]
			fmt.Fprintf(&body2, "\t%s\n\t_ = %s\n", s, name)
		}
	}
	lhs := ""
	if nres > 0 {
		lhs = strings.Join(resVars, ", ") + " := "
	}
	fmt.Fprintf(&body2, "\t%s%s\n", lhs, call)
	for _, rv := range resVars {
		fmt.Fprintf(&body2, "\t_ = %s\n", rv)
	}
	body2.WriteString("\tfmt.Println(\"ZZREPLAY returned\")\n")
	for i, rv := range resVars {
		fmt.Fprintf(&body2, "\tfmt.Printf(\"ZZREPLAY result%d = %%.300v\\n\", %s)\n", i, rv)
	}
	if clauseCode != "" && clauseWhy == "" {
		fmt.Fprintf(&body2, "\tfmt.Printf(\"ZZREPLAY clause = %%v\\n\", %s)\n", clauseCode)
	}
	imports := map[string]string{"fmt": "fmt", "math/big": "big", "reflect": "reflect", "runtime/debug": "debug", "strings": "strings", "testing": "testing"}
	for p, n := range rd.imports {
		imports[p] = n
	}
	var ips []string
	for p, n := range imports {
		if n != "testing" && !strings.Contains(body2.String()+replayHelpers, n+".") {
			continue
		}
		ips = append(ips, p)
	}
	sort.Strings(ips)
	var imp strings.Builder
	for _, p := range ips {
		fmt.Fprintf(&imp, "\t%s %q\n", imports[p], p)
	}
	var uses strings.Builder
	for _, p := range ips {
		switch imports[p] {
		case "fmt", "testing", "reflect", "debug", "strings", "big":
			continue
		}
		// keep otherwise-unused imports alive is not possible generically; they are only added when a type is named
	}
	_ = uses
	src := fmt.Sprintf(`package %s

import (
%s)
%s
// Replay of the solver's counterexample for obligation
//   %s
func TestZZReplay(zzt *testing.T) {
	defer func() {
		if r := recover(); r != nil {
			fmt.Printf("ZZREPLAY panic: %%v\n", r)
			fmt.Printf("ZZREPLAY stack: %%s\n", zzStack())
		}
	}()
%s}
`, pkgName, imp.String(), replayHelpers, strings.ReplaceAll(o.Name, "\n", " "), body2.String())
	dir := filepath.Join("/verif/replay", "src")
	os.MkdirAll(dir, 0o755)
	testFile := filepath.Join(dir, sanitize(o.Name)+"_test.go")
	os.WriteFile(testFile, []byte(src), 0o644)
	pkgDir := repoDir
	if pkgName == "sexp" {
		pkgDir = filepath.Join(repoDir, "sexp")
	}
	ov := map[string]map[string]string{"Replace": {filepath.Join(pkgDir, "zz_verif_replay_test.go"): testFile}}
	ob, _ := json.Marshal(ov)
	ovf := filepath.Join(dir, sanitize(o.Name)+".overlay.json")
	os.WriteFile(ovf, ob, 0o644)
	cmd := exec.Command("bash", "-c", fmt.Sprintf("ulimit -v 8000000; cd %s && go test -overlay %s -vet=off -count=1 -v -run '^TestZZReplay$' -timeout 60s .", pkgDir, ovf))
	cmd.Env = append(os.Environ(), "GOFLAGS=-mod=mod", "GOPROXY=off", "GOSUMDB=off", "GOTOOLCHAIN=local")
	out, _ := cmd.CombinedOutput()
	outS := string(out)

	var rep strings.Builder
	fmt.Fprintf(&rep, "\nreplay test: %s\nreplay call: %s\n", testFile, call)
	for i := range paramNames {
		fmt.Fprintf(&rep, "  %s = %s\n", paramNames[i], trunc(paramVals[i], 400))
	}
	if len(rd.notes) > 0 {
		var ns []string
		for n := range rd.notes {
			ns = append(ns, n)
		}
		sort.Strings(ns)
		rep.WriteString("input materialisation notes:\n")
		for _, n := range ns {
			rep.WriteString("  - " + n + "\n")
		}
	}
	for i, s := range reqSrc {
		fmt.Fprintf(&rep, "requires %d: %s\n", i, s)
	}
	if clause != nil {
		if clauseWhy != "" {
			fmt.Fprintf(&rep, "violated clause not compiled to Go: %s\n", clauseWhy)
		} else {
			fmt.Fprintf(&rep, "violated clause as Go: %s\n", trunc(clauseCode, 600))
		}
	}
	rep.WriteString("execution:\n")
	for _, ln := range strings.Split(outS, "\n") {
		if strings.Contains(ln, "ZZREPLAY") || strings.HasPrefix(ln, "panic:") || strings.Contains(ln, "FAIL") || strings.Contains(ln, ".go:") && strings.Contains(ln, ": ") && !strings.Contains(ln, "ZZREPLAY") {
			rep.WriteString("  " + trunc(ln, 1200) + "\n")
		}
	}
	built := strings.Contains(outS, "ZZREPLAY") || strings.Contains(outS, "--- PASS") || strings.Contains(outS, "--- FAIL")
	panicked := strings.Contains(outS, "ZZREPLAY panic:") || strings.Contains(outS, "\npanic:")
	returned := strings.Contains(outS, "ZZREPLAY returned")
	reqFalse := false
	reqUnknown := 0
	for i, code := range reqCode {
		if code == "" {
			reqUnknown++
			continue
		}
		if strings.Contains(outS, fmt.Sprintf("ZZREPLAY requires %d = false", i)) {
			reqFalse = true
		}
	}
	posStr := ""
	if o.Pos != token.NoPos {
		p := prog.Fset.Position(o.Pos)
		posStr = fmt.Sprintf("/%s:%d", filepath.Base(p.Filename), p.Line)
	}
	switch {
	case !built:
		rep.WriteString("replay: the generated test did not build or run; no-failing-input-found\n" + trunc(outS, 2500) + "\n")
	case reqFalse:
		rep.WriteString("replay: the materialised input does not satisfy the function's precondition (the model's heap could not be rebuilt faithfully); no-failing-input-found\n")
	case safetyKinds[kind] && panicked && posStr != "" && strings.Contains(outS, posStr+" "):
		o.Replayed = true
		o.ReplayFull = reqUnknown == 0
		fmt.Fprintf(&rep, "replay: REPRODUCED - the real code panics at %s on the counterexample (%d of %d preconditions evaluated, all true)\n", strings.TrimPrefix(posStr, "/"), len(reqCode)-reqUnknown, len(reqCode))
	case safetyKinds[kind] && panicked:
		rep.WriteString("replay: the call panicked, but not at the position of the obligation (" + strings.TrimPrefix(posStr, "/") + "): not counted; no-failing-input-found\n")
	case safetyKinds[kind] && returned:
		rep.WriteString("replay: not reproduced (the call returned normally); no-failing-input-found\n")
	case clause != nil && clauseWhy == "" && returned && strings.Contains(outS, "ZZREPLAY clause = false"):
		o.Replayed = true
		o.ReplayFull = reqUnknown == 0
		fmt.Fprintf(&rep, "replay: REPRODUCED - on the counterexample the real code returns and the violated clause evaluates to false (%d of %d preconditions evaluated, all true)\n", len(reqCode)-reqUnknown, len(reqCode))
	case clause != nil && clauseWhy == "" && returned && strings.Contains(outS, "ZZREPLAY clause = true"):
		rep.WriteString("replay: not reproduced (the clause holds on the real execution of the materialised input); no-failing-input-found\n")
	case clause != nil && clauseWhy != "":
		rep.WriteString("replay: the call was executed on the counterexample; the violated clause refers to ghost state or spec functions and is not evaluated dynamically; no-failing-input-found\n")
	default:
		rep.WriteString("replay: inconclusive; no-failing-input-found\n" + trunc(outS, 1500) + "\n")
	}
	return rep.String()
}
