package main

import "go/types"

// Pure lemmas over spec functions (no code): each `lemma` clause of the
// contract files becomes one obligation of the pseudo-function "lemmas".

func verifyLemmas() *FuncResult {
	if len(specs.Lemmas) == 0 {
		return nil
	}
	res := &FuncResult{Name: "lemmas"}
	ex := NewExec(nil)
	ex.pre = NewState("pre")
	env := &Env{ex: ex, st: ex.pre, old: ex.pre, vars: map[string]CVal{}, bound: map[string]*Term{}}
	for _, sp := range prog.SPkgs {
		if sp.Pkg.Name() == "otr3" {
			env.pkg = sp.Pkg
		}
	}
	for _, ax := range specs.Axioms {
		t, err := ex.safeEval(env, func() *Term { return env.boolOf(ax.E) })
		if err != "" {
			fatal("contract error in axiom: %s", err)
		}
		ex.assume(t)
	}
	for _, l := range specs.Lemmas {
		t, err := ex.safeEval(env, func() *Term { return env.boolOf(l.E) })
		if err != "" {
			fatal("contract error in lemma: %s", err)
		}
		name := ""
		if len(l.Labels) > 0 {
			name = l.Labels[0]
		}
		ex.oblige(&Obl{Fn: "lemmas", Kind: "ensures", Guard: True, Goal: t, Props: labelProps(l.Labels), Snip: l.Src, Name: name})
	}
	res.Events = ex.events
	for _, e := range ex.events {
		if e.Obl != nil {
			res.Obls = append(res.Obls, e.Obl)
		}
	}
	res.Axioms = append(ex.stringAxioms(), globalAxioms...)
	nameObligations(res)
	return res
}

// loadAxioms evaluates the `axiom` clauses once; they are added to every query.
func loadAxioms() {
	// nat of an all-zero byte string is 0 (used by wipeBigInt)
	if _, ok := specs.Ghosts["nat"]; ok {
		n := BoundVar("ax$n", BV(64))
		zarr := ConstArr(ArrSort(BV(64), BV(8)), BVLit(0, 8))
		declFun("nat", "(declare-fun nat (BS) Int)")
		t := UF("bs_of", SBS, zarr, BVLit(0, 64), n)
		globalAxioms = append(globalAxioms, Forall([]*Term{n}, Eq(App("nat", SInt, t), IntLit(0)), t))
	}
	// the package-level error value io.EOF is not nil (assumed fact about package io)
	{
		et := types.Universe.Lookup("error").Type()
		globalAxioms = append(globalAxioms, Neq(Acc("itag", Select(globalState().mem(et), ObjRef(IntLit(int64(extGlobalID("io.EOF")))))), IntLit(0)))
	}
	if len(specs.Axioms) == 0 {
		return
	}
	ex := NewExec(nil)
	ex.pre = NewState("pre")
	env := &Env{ex: ex, st: ex.pre, old: ex.pre, vars: map[string]CVal{}, bound: map[string]*Term{}}
	for _, sp := range prog.SPkgs {
		if sp.Pkg.Name() == "otr3" {
			env.pkg = sp.Pkg
		}
	}
	for _, ax := range specs.Axioms {
		t, err := ex.safeEval(env, func() *Term { return env.boolOf(ax.E) })
		if err != "" {
			fatal("contract error in axiom %s: %s", ax.Where, err)
		}
		// an axiom about ghost predicates (Bool-valued ghost functions) is added only to the queries of
		// functions whose conditions mention every such predicate: the rest of the system never sees it
		var preds []string
		seenT := map[int]bool{}
		var walk func(x *Term)
		walk = func(x *Term) {
			if seenT[x.id] {
				return
			}
			seenT[x.id] = true
			if g, ok := specs.Ghosts[x.Op]; ok && g.Res == "Bool" {
				dup := false
				for _, q := range preds {
					if q == x.Op {
						dup = true
					}
				}
				if !dup {
					preds = append(preds, x.Op)
				}
			}
			for _, a := range x.Args {
				walk(a)
			}
		}
		walk(t)
		if len(preds) == 0 {
			globalAxioms = append(globalAxioms, t)
		} else {
			scopedAxioms = append(scopedAxioms, scopedAxiom{t, preds})
		}
	}
}

type scopedAxiom struct {
	t     *Term
	preds []string
}

var scopedAxioms []scopedAxiom

// scopedAxiomsFor: the predicate-scoped axioms relevant to a set of events.
func scopedAxiomsFor(events []Event) []*Term {
	if len(scopedAxioms) == 0 {
		return nil
	}
	ops := map[string]bool{}
	seenT := map[int]bool{}
	var walk func(x *Term)
	walk = func(x *Term) {
		if x == nil || seenT[x.id] {
			return
		}
		seenT[x.id] = true
		if _, ok := specs.Ghosts[x.Op]; ok {
			ops[x.Op] = true
		}
		for _, a := range x.Args {
			walk(a)
		}
	}
	for _, e := range events {
		walk(e.Assume)
		if e.Obl != nil {
			walk(e.Obl.Guard)
			walk(e.Obl.Goal)
		}
	}
	var out []*Term
	for _, a := range scopedAxioms {
		ok := true
		for _, p := range a.preds {
			if !ops[p] {
				ok = false
			}
		}
		if ok {
			out = append(out, a.t)
		}
	}
	return out
}
