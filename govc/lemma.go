package main

import "go/types"

// Pure lemmas over spec functions (no code): each `lemma` clause of the
// contract files becomes one obligation of the pseudo-function "lemmas".

func verifyLemmas() *FuncResult {
	if len(specs.Lemmas) == 0 {
		return nil
	}
	res := &FuncResult{Name: "lemmas"}
	ex := NewExec(nil)
	ex.pre = NewState("pre")
	env := &Env{ex: ex, st: ex.pre, old: ex.pre, vars: map[string]CVal{}, bound: map[string]*Term{}}
	for _, sp := range prog.SPkgs {
		if sp.Pkg.Name() == "otr3" {
			env.pkg = sp.Pkg
		}
	}
	for _, ax := range specs.Axioms {
		t, err := ex.safeEval(env, func() *Term { return env.boolOf(ax.E) })
		if err != "" {
			fatal("contract error in axiom: %s", err)
		}
		ex.assume(t)
	}
	for _, l := range specs.Lemmas {
		t, err := ex.safeEval(env, func() *Term { return env.boolOf(l.E) })
		if err != "" {
			fatal("contract error in lemma: %s", err)
		}
		name := ""
		if len(l.Labels) > 0 {
			name = l.Labels[0]
		}
		ex.oblige(&Obl{Fn: "lemmas", Kind: "ensures", Guard: True, Goal: t, Props: labelProps(l.Labels), Snip: l.Src, Name: name})
	}
	res.Events = ex.events
	for _, e := range ex.events {
		if e.Obl != nil {
			res.Obls = append(res.Obls, e.Obl)
		}
	}
	res.Axioms = append(ex.stringAxioms(), globalAxioms...)
	nameObligations(res)
	return res
}

// loadAxioms evaluates the `axiom` clauses once; they are added to every query.
func loadAxioms() {
	// nat of an all-zero byte string is 0 (used by wipeBigInt)
	if _, ok := specs.Ghosts["nat"]; ok {
		n := BoundVar("ax$n", BV(64))
		zarr := ConstArr(ArrSort(BV(64), BV(8)), BVLit(0, 8))
		declFun("nat", "(declare-fun nat (BS) Int)")
		t := UF("bs_of", SBS, zarr, BVLit(0, 64), n)
		globalAxioms = append(globalAxioms, Forall([]*Term{n}, Eq(App("nat", SInt, t), IntLit(0)), t))
	}
	// the package-level error value io.EOF is not nil (assumed fact about package io)
	{
		et := types.Universe.Lookup("error").Type()
		globalAxioms = append(globalAxioms, Neq(Acc("itag", Select(globalState().mem(et), ObjRef(IntLit(int64(extGlobalID("io.EOF")))))), IntLit(0)))
	}
	if len(specs.Axioms) == 0 {
		return
	}
	ex := NewExec(nil)
	ex.pre = NewState("pre")
	env := &Env{ex: ex, st: ex.pre, old: ex.pre, vars: map[string]CVal{}, bound: map[string]*Term{}}
	for _, sp := range prog.SPkgs {
		if sp.Pkg.Name() == "otr3" {
			env.pkg = sp.Pkg
		}
	}
	for _, ax := range specs.Axioms {
		t, err := ex.safeEval(env, func() *Term { return env.boolOf(ax.E) })
		if err != "" {
			fatal("contract error in axiom %s: %s", ax.Where, err)
		}
		globalAxioms = append(globalAxioms, t)
	}
}
