package main

// Symbolic program state: one SMT array per cell type (M$T : Ref -> T) and one
// per element type for array objects (A$E : Ref -> (BV64 -> E)).

import (
	"fmt"
	"go/types"
	"sort"
)

type State struct {
	arrs map[string]*Term
	tag  string // suffix for initial versions
}

func NewState(tag string) *State { return &State{arrs: map[string]*Term{}, tag: tag} }

func (s *State) clone() *State {
	n := &State{arrs: make(map[string]*Term, len(s.arrs)), tag: s.tag}
	for k, v := range s.arrs {
		n.arrs[k] = v
	}
	return n
}

func (s *State) get(name string, srt *Sort) *Term {
	if t, ok := s.arrs[name]; ok {
		return t
	}
	memArrays[name] = srt
	t := Var(name+"@"+s.tag, srt)
	s.arrs[name] = t
	return t
}

func (s *State) set(name string, t *Term) { s.arrs[name] = t }

func (s *State) mem(t types.Type) *Term  { return s.get(memName(t), memSort(t)) }
func (s *State) amem(e types.Type) *Term { return s.get(amemName(e), amemSort(e)) }

// mergeStates builds the ite-merge of several states; conds[i] is the
// condition under which states[i] is the incoming one (the last is default).
func mergeStates(conds []*Term, states []*State) *State {
	if len(states) == 1 {
		return states[0].clone()
	}
	names := map[string]bool{}
	for _, s := range states {
		for k := range s.arrs {
			names[k] = true
		}
	}
	var ks []string
	for k := range names {
		ks = append(ks, k)
	}
	sort.Strings(ks)
	out := &State{arrs: map[string]*Term{}, tag: states[0].tag}
	for _, k := range ks {
		srt := memArrays[k]
		var acc *Term
		for i := len(states) - 1; i >= 0; i-- {
			v := states[i].get(k, srt)
			if acc == nil {
				acc = v
			} else {
				acc = Ite(conds[i], v, acc)
			}
		}
		out.arrs[k] = acc
	}
	return out
}

// elemStructKeys / elemScalarKeys: type keys that occur as element types of
// some slice or array type in the program (a pointer to such a type may point
// into an array object).
var elemTypeKeys = map[string]bool{}

func noteElemType(t types.Type) {
	elemTypeKeys[typeKey(t)] = true
}

type unsupported struct{ msg string }

func unsupp(f string, a ...interface{}) { panic(unsupported{fmt.Sprintf(f, a...)}) }

func pathIsOpaque(p *Term) bool {
	return p.Op != "proot" && p.Op != "pfld" && p.Op != "pelem"
}

// load reads a value of Go type T stored at address addr.
// isGlobalAddr: the address is syntactically inside the immutable global region.
func isGlobalAddr(addr *Term) bool {
	if prog == nil {
		return false
	}
	id, ok := Acc("rid", addr).IntVal()
	return ok && id > 0 && id <= int64(prog.NG)
}

func (s *State) load(addr *Term, T types.Type) *Term {
	if s != gState && isGlobalAddr(addr) {
		return globalState().load(addr, T)
	}
	if addr.Op == "ite" {
		return Ite(addr.Args[0], s.load(addr.Args[1], T), s.load(addr.Args[2], T))
	}
	path := Acc("rpath", addr)
	switch u := T.Underlying().(type) {
	case *types.Struct:
		if path.Op == "pelem" || (pathIsOpaque(path) && elemTypeKeys[typeKey(T)]) {
			return s.loadScalar(addr, T)
		}
		si := structInfo(T)
		fs := make([]*Term, len(si.Fields))
		for i, f := range si.Fields {
			fs[i] = s.load(FldRef(addr, i, si.Key), f.T)
		}
		return MkStruct(si, fs)
	case *types.Array:
		if path.Op == "pelem" {
			unsupp("array nested in array element")
		}
		if path.Op == "pfld" && path.Args[0].Op == "pelem" {
			return s.loadScalar(addr, T)
		}
		return Select(s.amem(u.Elem()), addr)
	}
	return s.loadScalar(addr, T)
}

func (s *State) loadScalar(addr *Term, T types.Type) *Term {
	id, path := Acc("rid", addr), Acc("rpath", addr)
	switch path.Op {
	case "pelem":
		base := MkRef(id, path.Args[0])
		return Select(Select(s.amem(T), base), path.Args[1])
	case "pfld":
		parent := path.Args[0]
		si := structByKey[path.Name]
		k64, _ := path.Args[1].IntVal()
		k := int(k64)
		if si != nil && parent.Op == "pelem" {
			base := MkRef(id, parent.Args[0])
			sv := Select(Select(s.amem(si.T), base), parent.Args[1])
			return StructField(si, sv, k)
		}
		if si != nil && pathIsOpaque(parent) && elemTypeKeys[si.Key] {
			isE := IsCtor("pelem", parent)
			base := MkRef(id, Acc("pe_parent", parent))
			sv := Select(Select(s.amem(si.T), base), Acc("pe_idx", parent))
			return Ite(isE, StructField(si, sv, k), Select(s.mem(T), addr))
		}
		return Select(s.mem(T), addr)
	case "proot":
		return Select(s.mem(T), addr)
	}
	if elemTypeKeys[typeKey(T)] {
		isE := IsCtor("pelem", path)
		base := MkRef(id, Acc("pe_parent", path))
		return Ite(isE, Select(Select(s.amem(T), base), Acc("pe_idx", path)), Select(s.mem(T), addr))
	}
	return Select(s.mem(T), addr)
}

func (s *State) store(addr *Term, T types.Type, v *Term) {
	if addr.Op == "ite" {
		a, b := s.clone(), s.clone()
		a.store(addr.Args[1], T, v)
		b.store(addr.Args[2], T, v)
		m := mergeStates([]*Term{addr.Args[0], True}, []*State{a, b})
		s.arrs = m.arrs
		return
	}
	path := Acc("rpath", addr)
	switch u := T.Underlying().(type) {
	case *types.Struct:
		if path.Op == "pelem" || (pathIsOpaque(path) && elemTypeKeys[typeKey(T)]) {
			s.storeScalar(addr, T, v)
			return
		}
		si := structInfo(T)
		for i, f := range si.Fields {
			s.store(FldRef(addr, i, si.Key), f.T, StructField(si, v, i))
		}
		return
	case *types.Array:
		if path.Op == "pelem" {
			unsupp("array nested in array element")
		}
		if path.Op == "pfld" && path.Args[0].Op == "pelem" {
			s.storeScalar(addr, T, v)
			return
		}
		s.set(amemName(u.Elem()), Store(s.amem(u.Elem()), addr, v))
		return
	}
	s.storeScalar(addr, T, v)
}

func (s *State) storeElem(E types.Type, base, idx, v *Term) {
	am := s.amem(E)
	s.set(amemName(E), Store(am, base, Store(Select(am, base), idx, v)))
}

func (s *State) storeScalar(addr *Term, T types.Type, v *Term) {
	id, path := Acc("rid", addr), Acc("rpath", addr)
	switch path.Op {
	case "pelem":
		s.storeElem(T, MkRef(id, path.Args[0]), path.Args[1], v)
		return
	case "pfld":
		parent := path.Args[0]
		si := structByKey[path.Name]
		k64, _ := path.Args[1].IntVal()
		k := int(k64)
		if si != nil && parent.Op == "pelem" {
			base := MkRef(id, parent.Args[0])
			old := Select(Select(s.amem(si.T), base), parent.Args[1])
			s.storeElem(si.T, base, parent.Args[1], StructUpdate(si, old, k, v))
			return
		}
		if si != nil && pathIsOpaque(parent) && elemTypeKeys[si.Key] {
			isE := IsCtor("pelem", parent)
			base := MkRef(id, Acc("pe_parent", parent))
			idx := Acc("pe_idx", parent)
			am := s.amem(si.T)
			old := Select(Select(am, base), idx)
			newAm := Store(am, base, Store(Select(am, base), idx, StructUpdate(si, old, k, v)))
			s.set(amemName(si.T), Ite(isE, newAm, am))
			m := s.mem(T)
			s.set(memName(T), Ite(isE, m, Store(m, addr, v)))
			return
		}
		s.set(memName(T), Store(s.mem(T), addr, v))
		return
	case "proot":
		s.set(memName(T), Store(s.mem(T), addr, v))
		return
	}
	if elemTypeKeys[typeKey(T)] {
		isE := IsCtor("pelem", path)
		base := MkRef(id, Acc("pe_parent", path))
		idx := Acc("pe_idx", path)
		am := s.amem(T)
		newAm := Store(am, base, Store(Select(am, base), idx, v))
		s.set(amemName(T), Ite(isE, newAm, am))
		m := s.mem(T)
		s.set(memName(T), Ite(isE, m, Store(m, addr, v)))
		return
	}
	s.set(memName(T), Store(s.mem(T), addr, v))
}

// refParts lists the Ref-sorted components of a value of type T (used for
// validity assumptions and escape obligations).
func refParts(v *Term, T types.Type) []*Term {
	switch u := T.Underlying().(type) {
	case *types.Pointer, *types.Map, *types.Chan:
		return []*Term{v}
	case *types.Basic:
		if u.Kind() == types.UnsafePointer {
			return []*Term{v}
		}
		return nil
	case *types.Slice:
		return []*Term{Acc("sbase", v)}
	case *types.Interface:
		return []*Term{Acc("iref", v)}
	case *types.Signature:
		return []*Term{Acc("fenv", v)}
	case *types.Struct:
		si := structInfo(T)
		var out []*Term
		for i, f := range si.Fields {
			out = append(out, refParts(StructField(si, v, i), f.T)...)
		}
		return out
	case *types.Array:
		return nil // element refs not tracked
	}
	return nil
}

// arr: contents of the array object at base (element type E); array objects in
// the immutable global region are read from the global state.
func (s *State) arr(E types.Type, base *Term) *Term {
	if s != gState && isGlobalAddr(base) {
		return Select(globalState().amem(E), base)
	}
	return Select(s.amem(E), base)
}

// escapeParts: the Ref components through which package-level *mutable* memory
// could be reached and written: pointers and slices (interface and function
// values are excluded: error sentinels and function tables are immutable boxes).
func escapeParts(v *Term, T types.Type) []*Term {
	switch u := T.Underlying().(type) {
	case *types.Pointer, *types.Map, *types.Chan:
		return []*Term{v}
	case *types.Slice:
		return []*Term{Acc("sbase", v)}
	case *types.Struct:
		si := structInfo(T)
		var out []*Term
		for i, f := range si.Fields {
			out = append(out, escapeParts(StructField(si, v, i), f.T)...)
		}
		return out
	case *types.Basic:
		if u.Kind() == types.UnsafePointer {
			return []*Term{v}
		}
	}
	return nil
}
