package main

// Contract files: structured `//@` comments.  Parser for clauses and for the
// contract expression language (Go-like, plus ==>, <==>, ===, old(), forall).

import (
	"fmt"
	"os"
	"strconv"
	"strings"
	"unicode"
)

type CExpr struct {
	Op   string // "num","str","char","id","call","field","index","slice","un","bin","forall","exists","star"
	Name string
	Args []*CExpr
	Pos  string
}

type Clause struct {
	Kind   string // requires, ensures, invariant
	Labels []string
	E      *CExpr
	Src    string
	Where  string
}

type FuncSpec struct {
	Name        string
	Requires    []*Clause
	Ensures     []*Clause
	Modifies    []*CExpr
	Preserves   []*Clause
	MayGlobal   map[string]bool
	GhostSets   []*GhostSet
	HasModifies bool
	ModAny      bool
	Trusted     bool
	Decreases   *CExpr
	Params      []string // optional explicit parameter names (external specs)
	Results     []string
	File        string
	NoInline    bool
	Opaque      bool // body unverified and contract assumed, e.g. unsafe code
	Inline      bool
	Allocates   *CExpr // upper bound (in elements) on every single make() of the body and of the code it inlines
}

type GhostSet struct {
	Loc, Val *CExpr
	Src      string
	Local    bool // value mentions locals of the function: evaluated only when the body is verified
}

type LoopSpec struct {
	Fn         string
	Ordinal    int
	Invariants []*Clause
	Decreases  *CExpr
	NoAuto     bool
	Exits      []*Clause
	BackEdges  []*Clause // transition clauses: x is the header value, x1 the value carried to the next iteration
}

type Macro struct {
	Name   string
	Params []string
	Body   *CExpr
}

type GhostFn struct {
	Name string
	Args []string
	Res  string
}

type Lemma struct {
	Labels []string
	E      *CExpr
	Src    string
	Where  string
}

type Specs struct {
	Funcs   map[string]*FuncSpec
	Loops   map[string]*LoopSpec // "fn#n"
	Macros  map[string]*Macro
	Ghosts  map[string]*GhostFn
	Lemmas  []*Lemma
	Axioms  []*Lemma
	Ifaces  map[string]*FuncSpec // "pkg.Iface.Method"
	Order   []string
	GhostFields map[string]string // name -> sort
}

// strictGhost: ghost arrays that change only through declared ghostset/modifies clauses
var strictGhost = map[string]bool{}

var specs = &Specs{Funcs: map[string]*FuncSpec{}, Loops: map[string]*LoopSpec{}, Macros: map[string]*Macro{}, Ghosts: map[string]*GhostFn{}, Ifaces: map[string]*FuncSpec{}, GhostFields: map[string]string{}}

func loadSpecFile(path string, required bool) {
	b, err := os.ReadFile(path)
	if err != nil {
		if required {
			fatal("cannot read %s: %v", path, err)
		}
		return
	}
	var curF *FuncSpec
	var curL *LoopSpec
	lines := strings.Split(string(b), "\n")
	for i := 0; i < len(lines); i++ {
		ln := strings.TrimSpace(lines[i])
		if !strings.HasPrefix(ln, "//@") {
			continue
		}
		ln = strings.TrimSpace(ln[3:])
		// continuation lines: "//@ ..." ending with backslash
		for strings.HasSuffix(ln, "\\") && i+1 < len(lines) {
			nx := strings.TrimSpace(lines[i+1])
			if !strings.HasPrefix(nx, "//@") {
				break
			}
			ln = strings.TrimSuffix(ln, "\\") + " " + strings.TrimSpace(nx[3:])
			i++
		}
		if ln == "" || strings.HasPrefix(ln, "#") {
			continue
		}
		where := fmt.Sprintf("%s:%d", path, i+1)
		kw, rest := splitKw(ln)
		switch kw {
		case "func":
			name, params, results := parseFuncHeader(rest)
			curF = &FuncSpec{Name: name, Params: params, Results: results, File: path}
			curL = nil
			if _, dup := specs.Funcs[name]; dup {
				fatal("%s: duplicate spec for %s", where, name)
			}
			specs.Funcs[name] = curF
			specs.Order = append(specs.Order, name)
		case "iface":
			name, params, results := parseFuncHeader(rest)
			curF = &FuncSpec{Name: name, Params: params, Results: results, File: path, Trusted: true}
			curL = nil
			specs.Ifaces[name] = curF
		case "loop":
			parts := strings.Fields(rest)
			if len(parts) != 2 || !strings.HasPrefix(parts[1], "#") {
				fatal("%s: loop <func> #<n>", where)
			}
			n, _ := strconv.Atoi(parts[1][1:])
			curL = &LoopSpec{Fn: parts[0], Ordinal: n}
			curF = nil
			specs.Loops[fmt.Sprintf("%s#%d", parts[0], n)] = curL
		case "backedge":
			if curL == nil {
				fatal("%s: backedge outside loop", where)
			}
			labels, src := splitLabels(rest)
			curL.BackEdges = append(curL.BackEdges, &Clause{Kind: "backedge", Labels: labels, E: parseCExpr(src, where), Src: src, Where: where})
		case "exit":
			if curL == nil {
				fatal("%s: exit outside loop", where)
			}
			labels, src := splitLabels(rest)
			curL.Exits = append(curL.Exits, &Clause{Kind: "exit", Labels: labels, E: parseCExpr(src, where), Src: src, Where: where})
		case "requires", "ensures", "invariant":
			labels, src := splitLabels(rest)
			e := parseCExpr(src, where)
			cl := &Clause{Kind: kw, Labels: labels, E: e, Src: src, Where: where}
			switch {
			case kw == "invariant" && curL != nil:
				curL.Invariants = append(curL.Invariants, cl)
			case kw == "requires" && curF != nil:
				curF.Requires = append(curF.Requires, cl)
			case kw == "ensures" && curF != nil:
				curF.Ensures = append(curF.Ensures, cl)
			default:
				fatal("%s: clause %s outside func/loop", where, kw)
			}
		case "modifies":
			if curF == nil {
				fatal("%s: modifies outside func", where)
			}
			curF.HasModifies = true
			if strings.TrimSpace(rest) == "anything" {
				curF.ModAny = true
				break
			}
			if strings.TrimSpace(rest) == "nothing" {
				break
			}
			for _, part := range splitTop(rest, ',') {
				curF.Modifies = append(curF.Modifies, parseCExpr(part, where))
			}
		case "preserves":
			if curF == nil {
				fatal("%s: preserves outside func", where)
			}
			labels, src := splitLabels(rest)
			for _, part := range splitTop(src, ',') {
				curF.Preserves = append(curF.Preserves, &Clause{Kind: "preserves", Labels: labels, E: parseCExpr(part, where), Src: strings.TrimSpace(part), Where: where})
			}
		case "ghostset", "ghostlocal":
			// ghostset field(x) = expr : ghost assignment executed at function exit
			eq := strings.Index(rest, " = ")
			if eq < 0 || curF == nil {
				fatal("%s: %s <loc> = <expr>", where, kw)
			}
			curF.GhostSets = append(curF.GhostSets, &GhostSet{Loc: parseCExpr(rest[:eq], where), Val: parseCExpr(rest[eq+3:], where), Src: rest, Local: kw == "ghostlocal"})
		case "mayglobal":
			if curF.MayGlobal == nil {
				curF.MayGlobal = map[string]bool{}
			}
			for _, n := range strings.Split(rest, ",") {
				curF.MayGlobal[strings.TrimSpace(n)] = true
			}
		case "pure":
			curF.HasModifies = true
		case "trusted":
			curF.Trusted = true
		case "opaque":
			curF.Opaque = true
			curF.Trusted = true
		case "noinline":
			curF.NoInline = true
		case "inline":
			curF.Inline = true
		case "noauto":
			if curL != nil {
				curL.NoAuto = true
			}
		case "allocates":
			if curF != nil {
				curF.Allocates = parseCExpr(rest, where)
			}
		case "decreases":
			e := parseCExpr(rest, where)
			if curL != nil {
				curL.Decreases = e
			} else if curF != nil {
				curF.Decreases = e
			}
		case "define":
			// define name(a, b) = expr
			eq := strings.Index(rest, "=")
			head := strings.TrimSpace(rest[:eq])
			name, params, _ := parseFuncHeader(head)
			specs.Macros[name] = &Macro{Name: name, Params: params, Body: parseCExpr(rest[eq+1:], where)}
		case "ghostfn":
			// ghostfn name(Sort, Sort) Sort
			op := strings.Index(rest, "(")
			cp := strings.LastIndex(rest, ")")
			name := strings.TrimSpace(rest[:op])
			var as []string
			for _, a := range splitTop(rest[op+1:cp], ',') {
				if strings.TrimSpace(a) != "" {
					as = append(as, strings.TrimSpace(a))
				}
			}
			specs.Ghosts[name] = &GhostFn{Name: name, Args: as, Res: strings.TrimSpace(rest[cp+1:])}
		case "sweep":
			for _, n := range strings.Split(rest, ",") {
				if n = strings.TrimSpace(n); n != "" {
					sweepSet[n] = true
				}
			}
		case "ghostfield", "ghoststate":
			parts := strings.Fields(rest)
			if len(parts) != 2 {
				fatal("%s: %s <name> <Sort>", where, kw)
			}
			specs.GhostFields[parts[0]] = parts[1]
			if kw == "ghoststate" {
				strictGhost["G$"+parts[0]] = true
			}
		case "lemma", "axiom":
			labels, src := splitLabels(rest)
			l := &Lemma{Labels: labels, E: parseCExpr(src, where), Src: src, Where: where}
			if kw == "lemma" {
				specs.Lemmas = append(specs.Lemmas, l)
			} else {
				specs.Axioms = append(specs.Axioms, l)
			}
		default:
			fatal("%s: unknown contract keyword %q", where, kw)
		}
	}
}

func splitKw(s string) (string, string) {
	i := strings.IndexAny(s, " \t")
	if i < 0 {
		return s, ""
	}
	return s[:i], strings.TrimSpace(s[i+1:])
}

func splitLabels(s string) ([]string, string) {
	s = strings.TrimSpace(s)
	if strings.HasPrefix(s, "[") {
		j := strings.Index(s, "]")
		var ls []string
		for _, l := range strings.Split(s[1:j], ",") {
			ls = append(ls, strings.TrimSpace(l))
		}
		return ls, strings.TrimSpace(s[j+1:])
	}
	return nil, s
}

// parseFuncHeader: "name" or "name(a, b)" or "name(a, b) (r1, r2)".
func parseFuncHeader(s string) (string, []string, []string) {
	s = strings.TrimSpace(s)
	// method names contain parentheses at the start: "(*T).m" — find the
	// parameter list as the first '(' that follows an identifier character.
	depthStart := -1
	for i := 0; i < len(s); i++ {
		if s[i] == '(' && i > 0 && (unicode.IsLetter(rune(s[i-1])) || unicode.IsDigit(rune(s[i-1])) || s[i-1] == '_' || s[i-1] == '$') {
			depthStart = i
			break
		}
	}
	if depthStart < 0 {
		return s, nil, nil
	}
	name := strings.TrimSpace(s[:depthStart])
	rest := s[depthStart:]
	end := strings.Index(rest, ")")
	var params, results []string
	for _, p := range strings.Split(rest[1:end], ",") {
		if p = strings.TrimSpace(p); p != "" {
			params = append(params, p)
		}
	}
	rest = strings.TrimSpace(rest[end+1:])
	if strings.HasPrefix(rest, "(") {
		for _, p := range strings.Split(strings.Trim(rest, "()"), ",") {
			if p = strings.TrimSpace(p); p != "" {
				results = append(results, p)
			}
		}
	}
	return name, params, results
}

func splitTop(s string, sep byte) []string {
	var out []string
	depth := 0
	start := 0
	for i := 0; i < len(s); i++ {
		switch s[i] {
		case '(', '[':
			depth++
		case ')', ']':
			depth--
		default:
			if s[i] == sep && depth == 0 {
				out = append(out, s[start:i])
				start = i + 1
			}
		}
	}
	out = append(out, s[start:])
	return out
}

// ---------- expression lexer/parser ----------

type tok struct {
	k string // "id","num","str","char","op","eof"
	s string
}

func lexC(s string, where string) []tok {
	var out []tok
	i := 0
	for i < len(s) {
		c := s[i]
		switch {
		case c == ' ' || c == '\t':
			i++
		case unicode.IsLetter(rune(c)) || c == '_':
			j := i
			for j < len(s) && (unicode.IsLetter(rune(s[j])) || unicode.IsDigit(rune(s[j])) || s[j] == '_' || s[j] == '$') {
				j++
			}
			out = append(out, tok{"id", s[i:j]})
			i = j
		case unicode.IsDigit(rune(c)):
			j := i
			for j < len(s) && (unicode.IsLetter(rune(s[j])) || unicode.IsDigit(rune(s[j]))) {
				j++
			}
			out = append(out, tok{"num", s[i:j]})
			i = j
		case c == '"':
			j := i + 1
			for j < len(s) && s[j] != '"' {
				if s[j] == '\\' {
					j++
				}
				j++
			}
			str, err := strconv.Unquote(s[i : j+1])
			if err != nil {
				fatal("%s: bad string literal", where)
			}
			out = append(out, tok{"str", str})
			i = j + 1
		case c == '\'':
			j := i + 1
			for j < len(s) && s[j] != '\'' {
				if s[j] == '\\' {
					j++
				}
				j++
			}
			r, _, _, err := strconv.UnquoteChar(s[i+1:j], '\'')
			if err != nil {
				fatal("%s: bad char literal", where)
			}
			out = append(out, tok{"num", strconv.Itoa(int(r))})
			i = j + 1
		default:
			ops := []string{"<==>", "==>", "===", "!==", "&&", "||", "==", "!=", "<=", ">=", "<<", ">>", "&^", "::", "..", "(", ")", "[", "]", ",", ".", ":", "+", "-", "*", "/", "%", "&", "|", "^", "<", ">", "!"}
			found := false
			for _, o := range ops {
				if strings.HasPrefix(s[i:], o) {
					out = append(out, tok{"op", o})
					i += len(o)
					found = true
					break
				}
			}
			if !found {
				fatal("%s: unexpected character %q in %q", where, c, s)
			}
		}
	}
	out = append(out, tok{"eof", ""})
	return out
}

type cparser struct {
	toks  []tok
	p     int
	where string
	src   string
}

func parseCExpr(s string, where string) *CExpr {
	ps := &cparser{toks: lexC(s, where), where: where, src: s}
	e := ps.expr(0)
	if ps.peek().k != "eof" {
		fatal("%s: trailing input %q in %q", where, ps.peek().s, s)
	}
	return e
}

func (p *cparser) peek() tok { return p.toks[p.p] }
func (p *cparser) next() tok { t := p.toks[p.p]; p.p++; return t }
func (p *cparser) isOp(s string) bool {
	t := p.peek()
	return t.k == "op" && t.s == s
}
func (p *cparser) expect(s string) {
	if !p.isOp(s) {
		fatal("%s: expected %q, got %q in %q", p.where, s, p.peek().s, p.src)
	}
	p.next()
}

var binPrec = map[string]int{
	"<==>": 1, "==>": 2, "||": 3, "&&": 4,
	"==": 5, "!=": 5, "<": 5, "<=": 5, ">": 5, ">=": 5, "===": 5, "!==": 5,
	"+": 6, "-": 6, "|": 6, "^": 6,
	"*": 7, "/": 7, "%": 7, "&": 7, "<<": 7, ">>": 7, "&^": 7,
}

func (p *cparser) expr(minPrec int) *CExpr {
	lhs := p.unary()
	for {
		t := p.peek()
		if t.k != "op" {
			return lhs
		}
		pr, ok := binPrec[t.s]
		if !ok || pr < minPrec {
			return lhs
		}
		p.next()
		var rhs *CExpr
		if t.s == "==>" || t.s == "<==>" { // right assoc
			rhs = p.expr(pr)
		} else {
			rhs = p.expr(pr + 1)
		}
		lhs = &CExpr{Op: "bin", Name: t.s, Args: []*CExpr{lhs, rhs}, Pos: p.where}
	}
}

func (p *cparser) unary() *CExpr {
	t := p.peek()
	if t.k == "op" && (t.s == "!" || t.s == "-" || t.s == "^") {
		p.next()
		return &CExpr{Op: "un", Name: t.s, Args: []*CExpr{p.unary()}, Pos: p.where}
	}
	if t.k == "op" && t.s == "*" {
		p.next()
		return &CExpr{Op: "star", Args: []*CExpr{p.unary()}, Pos: p.where}
	}
	return p.postfix(p.primary())
}

func (p *cparser) primary() *CExpr {
	t := p.next()
	switch t.k {
	case "num":
		return &CExpr{Op: "num", Name: t.s, Pos: p.where}
	case "str":
		return &CExpr{Op: "str", Name: t.s, Pos: p.where}
	case "id":
		if t.s == "forallint" {
			// forallint x :: body   -- x ranges over the mathematical integers (ghost Int); axioms only
			v := p.next()
			e := &CExpr{Op: "forallint", Name: v.s, Pos: p.where}
			for p.isOp(",") {
				p.next()
				e.Name += "," + p.next().s
			}
			p.expect("::")
			e.Args = []*CExpr{p.expr(0)}
			return e
		}
		if t.s == "forall" || t.s == "exists" {
			// forall i :: body   |  forall i in lo..hi :: body
			v := p.next()
			e := &CExpr{Op: t.s, Name: v.s, Pos: p.where}
			if p.peek().k == "id" && p.peek().s == "in" {
				p.next()
				lo := p.expr(6)
				p.expect("..")
				hi := p.expr(6)
				p.expect("::")
				body := p.expr(0)
				e.Args = []*CExpr{body, lo, hi}
				return e
			}
			p.expect("::")
			e.Args = []*CExpr{p.expr(0)}
			return e
		}
		if p.isOp("(") {
			p.next()
			var args []*CExpr
			for !p.isOp(")") {
				args = append(args, p.expr(0))
				if p.isOp(",") {
					p.next()
				}
			}
			p.expect(")")
			return &CExpr{Op: "call", Name: t.s, Args: args, Pos: p.where}
		}
		return &CExpr{Op: "id", Name: t.s, Pos: p.where}
	case "op":
		if t.s == "(" {
			e := p.expr(0)
			p.expect(")")
			return e
		}
	}
	fatal("%s: unexpected token %q in %q", p.where, t.s, p.src)
	return nil
}

func (p *cparser) postfix(e *CExpr) *CExpr {
	for {
		switch {
		case p.isOp("."):
			p.next()
			t := p.next()
			if t.k == "op" && t.s == "*" {
				e = &CExpr{Op: "field", Name: "*", Args: []*CExpr{e}, Pos: p.where}
				continue
			}
			e = &CExpr{Op: "field", Name: t.s, Args: []*CExpr{e}, Pos: p.where}
		case p.isOp("["):
			p.next()
			var lo, hi *CExpr
			if !p.isOp(":") {
				lo = p.expr(0)
			}
			if p.isOp(":") {
				p.next()
				if !p.isOp("]") {
					hi = p.expr(0)
				}
				p.expect("]")
				e = &CExpr{Op: "slice", Args: []*CExpr{e, lo, hi}, Pos: p.where}
				continue
			}
			p.expect("]")
			e = &CExpr{Op: "index", Args: []*CExpr{e, lo}, Pos: p.where}
		default:
			return e
		}
	}
}

func (e *CExpr) String() string {
	if e == nil {
		return "_"
	}
	switch e.Op {
	case "num", "id":
		return e.Name
	case "str":
		return strconv.Quote(e.Name)
	case "bin":
		return "(" + e.Args[0].String() + " " + e.Name + " " + e.Args[1].String() + ")"
	case "un":
		return e.Name + e.Args[0].String()
	case "star":
		return "*" + e.Args[0].String()
	case "field":
		return e.Args[0].String() + "." + e.Name
	case "index":
		return e.Args[0].String() + "[" + e.Args[1].String() + "]"
	case "slice":
		return e.Args[0].String() + "[" + e.Args[1].String() + ":" + e.Args[2].String() + "]"
	case "call":
		var as []string
		for _, a := range e.Args {
			as = append(as, a.String())
		}
		return e.Name + "(" + strings.Join(as, ", ") + ")"
	case "forall", "exists", "forallint":
		return e.Op + " " + e.Name + " :: " + e.Args[0].String()
	}
	return "?"
}
