package main

// Mapping of Go types to SMT sorts, struct datatypes, memory arrays and zero
// values; generation of the SMT prelude.

import (
	"fmt"
	"go/types"
	"regexp"
	"sort"
	"strings"
)

type FieldInfo struct {
	Name string
	T    types.Type
	Sort *Sort
	Acc  string // accessor symbol
}

type StructInfo struct {
	Key    string
	T      types.Type // named or struct type
	Sort   *Sort
	Ctor   string
	Fields []FieldInfo
}

type accInfo struct {
	ctor string
	idx  int
	sort *Sort
}

var (
	structByKey  = map[string]*StructInfo{}
	structOrder  []*StructInfo
	accTab       = map[string]accInfo{}
	typeKeyTab   = map[string]string{} // types.TypeString -> key
	keyUsed      = map[string]bool{}
	keyToType    = map[string]types.Type{}
	memArrays    = map[string]*Sort{} // memory array name -> sort (declared lazily as initial-state constants)
	uninterpFuns = map[string]string{} // name -> declaration text
	uninterpOrd  []string
)

func init() {
	accTab["rid"] = accInfo{"mkref", 0, SInt}
	accTab["rpath"] = accInfo{"mkref", 1, SPath}
	accTab["pf_parent"] = accInfo{"pfld", 0, SPath}
	accTab["pf_idx"] = accInfo{"pfld", 1, SInt}
	accTab["pe_parent"] = accInfo{"pelem", 0, SPath}
	accTab["pe_idx"] = accInfo{"pelem", 1, BV(64)}
	accTab["sbase"] = accInfo{"mkslice", 0, SRef}
	accTab["soff"] = accInfo{"mkslice", 1, BV(64)}
	accTab["slen"] = accInfo{"mkslice", 2, BV(64)}
	accTab["scap"] = accInfo{"mkslice", 3, BV(64)}
	accTab["itag"] = accInfo{"mkiface", 0, SInt}
	accTab["iref"] = accInfo{"mkiface", 1, SRef}
	accTab["fid"] = accInfo{"mkfunc", 0, SInt}
	accTab["fenv"] = accInfo{"mkfunc", 1, SRef}
}

func qualifier(p *types.Package) string { return p.Name() }

var byteRe = regexp.MustCompile(`\bbyte\b`)
var runeRe = regexp.MustCompile(`\brune\b`)
var anyRe = regexp.MustCompile(`\bany\b`)

func typeKey(t types.Type) string {
	s := types.TypeString(t, qualifier)
	s = byteRe.ReplaceAllString(s, "uint8")
	s = runeRe.ReplaceAllString(s, "int32")
	s = anyRe.ReplaceAllString(s, "interface{}")
	if k, ok := typeKeyTab[s]; ok {
		return k
	}
	k := sanitize(s)
	k = strings.ReplaceAll(k, "!", "_")
	if len(k) > 60 {
		k = k[:60]
	}
	base := k
	for i := 2; keyUsed[k]; i++ {
		k = fmt.Sprintf("%s~%d", base, i)
	}
	keyUsed[k] = true
	typeKeyTab[s] = k
	keyToType[k] = t
	return k
}

// Acc applies a datatype accessor with simplification.
type accKey struct {
	name string
	id   int
}

var accMemo = map[accKey]*Term{}

func Acc(name string, t *Term) *Term {
	ai, ok := accTab[name]
	if !ok {
		panic("unknown accessor " + name)
	}
	if t.Op == ai.ctor {
		return t.Args[ai.idx]
	}
	if t.Op == "ite" {
		k := accKey{name, t.id}
		if r, ok := accMemo[k]; ok {
			return r
		}
		l, r := Acc(name, t.Args[1]), Acc(name, t.Args[2])
		var res *Term
		if (l.Op != name) || (r.Op != name) {
			res = Ite(t.Args[0], l, r)
		} else {
			res = App(name, ai.sort, t)
		}
		accMemo[k] = res
		return res
	}
	return App(name, ai.sort, t)
}

var Null = App("null", SRef)
var PRoot = App("proot", SPath)

func MkRef(id, path *Term) *Term { return App("mkref", SRef, id, path) }
func ObjRef(id *Term) *Term      { return MkRef(id, PRoot) }

// FldRef: address of field k of the struct at x.  note = struct type key.
func FldRef(x *Term, k int, structKey string) *Term {
	return MkRef(Acc("rid", x), AppN("pfld", structKey, SPath, Acc("rpath", x), IntLit(int64(k))))
}

// ElemRef: address of element i of the array object at base. note = elem type key
func ElemRef(base, i *Term, elemKey string) *Term {
	return MkRef(Acc("rid", base), AppN("pelem", elemKey, SPath, Acc("rpath", base), i))
}

func MkSlice(base, off, ln, cp *Term) *Term { return App("mkslice", SSlice, base, off, ln, cp) }
func MkIface(tag, ref *Term) *Term          { return App("mkiface", SIface, tag, ref) }
func MkFunc(id, env *Term) *Term            { return App("mkfunc", SFunc, id, env) }

var (
	NilSlice = MkSlice(Null, BVLit(0, 64), BVLit(0, 64), BVLit(0, 64))
	NilIface = MkIface(IntLit(0), Null)
	NilFunc  = MkFunc(IntLit(0), Null)
	EmptyStr = Var("str$empty", SStr)
)

func intSize(b *types.Basic) (w int, signedT bool) {
	switch b.Kind() {
	case types.Int8:
		return 8, true
	case types.Int16:
		return 16, true
	case types.Int32:
		return 32, true
	case types.Int64, types.Int, types.UntypedInt, types.UntypedRune:
		return 64, true
	case types.Uint8:
		return 8, false
	case types.Uint16:
		return 16, false
	case types.Uint32:
		return 32, false
	case types.Uint64, types.Uint, types.Uintptr:
		return 64, false
	}
	return 0, false
}

func isSigned(t types.Type) bool {
	if b, ok := t.Underlying().(*types.Basic); ok {
		_, s := intSize(b)
		return s
	}
	return false
}

func isInteger(t types.Type) bool {
	if b, ok := t.Underlying().(*types.Basic); ok {
		return b.Info()&types.IsInteger != 0
	}
	return false
}

func isString(t types.Type) bool {
	if b, ok := t.Underlying().(*types.Basic); ok {
		return b.Info()&types.IsString != 0
	}
	return false
}

func sortOf(t types.Type) *Sort {
	switch u := t.Underlying().(type) {
	case *types.Basic:
		switch {
		case u.Info()&types.IsBoolean != 0:
			return SBool
		case u.Info()&types.IsInteger != 0:
			w, _ := intSize(u)
			return BV(w)
		case u.Info()&types.IsString != 0:
			return SStr
		case u.Kind() == types.UnsafePointer:
			return SRef
		case u.Info()&types.IsFloat != 0, u.Info()&types.IsComplex != 0:
			return SF64
		case u.Kind() == types.UntypedNil:
			return SRef
		}
	case *types.Pointer, *types.Map, *types.Chan:
		return SRef
	case *types.Slice:
		return SSlice
	case *types.Interface:
		return SIface
	case *types.Signature:
		return SFunc
	case *types.Array:
		return ArrSort(BV(64), sortOf(u.Elem()))
	case *types.Struct:
		return structInfo(t).Sort
	case *types.Tuple:
		panic("sortOf tuple")
	}
	panic("sortOf: unsupported type " + t.String())
}

func structInfo(t types.Type) *StructInfo {
	st := t.Underlying().(*types.Struct)
	key := typeKey(t)
	if si, ok := structByKey[key]; ok {
		return si
	}
	si := &StructInfo{Key: key, T: t, Ctor: "mk$" + key}
	// register field sorts first (dependency order)
	for i := 0; i < st.NumFields(); i++ {
		f := st.Field(i)
		fi := FieldInfo{Name: f.Name(), T: f.Type(), Sort: sortOf(f.Type()), Acc: fmt.Sprintf("f$%s$%d", key, i)}
		si.Fields = append(si.Fields, fi)
	}
	si.Sort = mkSort("S$"+key, KData)
	for i, f := range si.Fields {
		accTab[f.Acc] = accInfo{si.Ctor, i, f.Sort}
	}
	structByKey[key] = si
	structOrder = append(structOrder, si)
	return si
}

func MkStruct(si *StructInfo, fields []*Term) *Term {
	if len(fields) != len(si.Fields) {
		panic("MkStruct arity")
	}
	if len(fields) == 0 {
		return App(si.Ctor, si.Sort)
	}
	return App(si.Ctor, si.Sort, fields...)
}

func StructField(si *StructInfo, v *Term, i int) *Term { return Acc(si.Fields[i].Acc, v) }

func StructUpdate(si *StructInfo, v *Term, i int, x *Term) *Term {
	fs := make([]*Term, len(si.Fields))
	for j := range si.Fields {
		if j == i {
			fs[j] = x
		} else {
			fs[j] = StructField(si, v, j)
		}
	}
	return MkStruct(si, fs)
}

func zeroOf(t types.Type) *Term {
	s := sortOf(t)
	switch u := t.Underlying().(type) {
	case *types.Basic:
		switch s.Kind {
		case KBool:
			return False
		case KBV:
			return BVLit(0, s.W)
		}
		if s == SStr {
			return EmptyStr
		}
		if s == SRef {
			return Null
		}
		if s == SF64 {
			return Var("f64$zero", SF64)
		}
	case *types.Pointer, *types.Map, *types.Chan:
		return Null
	case *types.Slice:
		return NilSlice
	case *types.Interface:
		return NilIface
	case *types.Signature:
		return NilFunc
	case *types.Array:
		return ConstArr(s, zeroOf(u.Elem()))
	case *types.Struct:
		si := structInfo(t)
		fs := make([]*Term, len(si.Fields))
		for i, f := range si.Fields {
			fs[i] = zeroOf(f.T)
		}
		return MkStruct(si, fs)
	}
	panic("zeroOf " + t.String())
}

// memory array names
func memName(t types.Type) string  { return "M$" + typeKey(t) }
func amemName(e types.Type) string { return "A$" + typeKey(e) }

func memSort(t types.Type) *Sort  { return ArrSort(SRef, sortOf(t)) }
func amemSort(e types.Type) *Sort { return ArrSort(SRef, ArrSort(BV(64), sortOf(e))) }

func declFun(name, decl string) {
	if _, ok := uninterpFuns[name]; !ok {
		uninterpFuns[name] = decl
		uninterpOrd = append(uninterpOrd, name)
	}
}

// UF applies an uninterpreted function, declaring it on first use.
func UF(name string, res *Sort, args ...*Term) *Term {
	if _, ok := uninterpFuns[name]; !ok {
		var as []string
		for _, a := range args {
			as = append(as, a.Sort.S)
		}
		declFun(name, fmt.Sprintf("(declare-fun %s (%s) %s)", quoteSym(name), strings.Join(as, " "), res.S))
	}
	return App(name, res, args...)
}

func Prelude(logicOpts string) string {
	var sb strings.Builder
	sb.WriteString(logicOpts)
	sb.WriteString("(declare-sort Str 0)\n(declare-sort BS 0)\n(declare-sort F64 0)\n")
	sb.WriteString("(declare-datatypes ((Path 0)) (((proot) (pfld (pf_parent Path) (pf_idx Int)) (pelem (pe_parent Path) (pe_idx (_ BitVec 64))))))\n")
	sb.WriteString("(declare-datatypes ((Ref 0)) (((null) (mkref (rid Int) (rpath Path)))))\n")
	sb.WriteString("(declare-datatypes ((Slice 0)) (((mkslice (sbase Ref) (soff (_ BitVec 64)) (slen (_ BitVec 64)) (scap (_ BitVec 64))))))\n")
	sb.WriteString("(declare-datatypes ((Iface 0)) (((mkiface (itag Int) (iref Ref)))))\n")
	sb.WriteString("(declare-datatypes ((Func 0)) (((mkfunc (fid Int) (fenv Ref)))))\n")
	for _, si := range structOrder {
		fmt.Fprintf(&sb, "(declare-datatypes ((%s 0)) (((%s", si.Sort.S, quoteSym(si.Ctor))
		for _, f := range si.Fields {
			fmt.Fprintf(&sb, " (%s %s)", quoteSym(f.Acc), f.Sort.S)
		}
		sb.WriteString("))))\n")
	}
	names := append([]string(nil), uninterpOrd...)
	sort.Strings(names)
	for _, n := range names {
		sb.WriteString(uninterpFuns[n])
		sb.WriteByte('\n')
	}
	return sb.String()
}
