package main

// Call handling: builtins, contracted callees (modular), uncontracted in-scope
// callees (inlined), external functions (assumed specs or conservative havoc),
// interface dispatch over the closed set of implementations, function values.

import (
	"fmt"
	"go/token"
	"go/types"
	"sort"
	"strings"

	"golang.org/x/tools/go/ssa"
)

func (fr *Frame) call(c *ssa.CallCommon, site ssa.Instruction, st *State, guard *Term) []*Term {
	var fnv *Term
	var args []*Term
	if c.IsInvoke() {
		fnv = fr.val(c.Value)
	} else if _, isB := c.Value.(*ssa.Builtin); !isB {
		if _, isF := c.Value.(*ssa.Function); !isF {
			fnv = fr.val(c.Value)
		}
	}
	for _, a := range c.Args {
		args = append(args, fr.val(a))
	}
	return fr.callWith(c, site, st, guard, fnv, args)
}

// callWith executes a call with pre-evaluated callee value and arguments under
// the given guard (guard == reach of the current block for ordinary calls).
func (fr *Frame) callWith(c *ssa.CallCommon, site ssa.Instruction, st *State, guard *Term, fnv *Term, args []*Term) []*Term {
	saved := fr.reach[fr.curBlock]
	fr.reach[fr.curBlock] = guard
	defer func() { fr.reach[fr.curBlock] = saved }()
	pos := site.Pos()
	if c.IsInvoke() {
		return fr.invoke(c, pos, st, fnv, args)
	}
	switch f := c.Value.(type) {
	case *ssa.Builtin:
		return fr.builtin(f.Name(), c, pos, st, args)
	case *ssa.Function:
		return fr.callFunc(f, pos, st, args, nil)
	case *ssa.MakeClosure:
		fn := f.Fn.(*ssa.Function)
		var fvs []*Term
		for _, b := range f.Bindings {
			fvs = append(fvs, fr.val(b))
		}
		return fr.callFunc(fn, pos, st, args, fvs)
	}
	return fr.callDynamic(c.Signature(), c.Value.Type(), pos, st, fnv, args)
}

func resultTypes(sig *types.Signature) []types.Type {
	var out []types.Type
	for i := 0; i < sig.Results().Len(); i++ {
		out = append(out, sig.Results().At(i).Type())
	}
	return out
}

// havocResults: fresh, well-formed result values.
func (fr *Frame) havocResults(name string, sig *types.Signature) []*Term {
	var out []*Term
	for i, T := range resultTypes(sig) {
		v := Fresh(fmt.Sprintf("res$%s$%d", name, i), sortOf(T))
		fr.assumeG(fr.ex.validVal(v, T, false))
		out = append(out, v)
	}
	return out
}

func (fr *Frame) callFunc(fn *ssa.Function, pos token.Pos, st *State, args []*Term, freeVars []*Term) []*Term {
	ex := fr.ex
	if sp := lookupSpec(fn); sp != nil && !sp.Inline {
		return fr.callBySpec(fn, sp, pos, st, args)
	}
	if !inScope(fn) {
		if nf, ok := natives[extName(fn)]; ok {
			ex.trusted["native model: "+extName(fn)] = true
			return nf(fr, fn, pos, st, args)
		}
		return fr.callExternalDefault(fn, pos, st, args)
	}
	// uncontracted in-scope callee: inline
	for _, s := range ex.stack {
		if s == fn {
			unsupp("recursive call to %s without a contract", funcName(fn))
		}
	}
	if fr.depth >= maxInlineDepth {
		unsupp("inline depth exceeded at %s", funcName(fn))
	}
	chain := fr.chain
	if chain != "" {
		chain += ">"
	}
	chain += funcName(fn)
	var preInline *State
	inlineSpec := lookupSpec(fn)
	if inlineSpec != nil && len(inlineSpec.GhostSets) > 0 {
		preInline = st.clone()
	}
	res, out, retReach := ex.run(fn, args, freeVars, st, fr.reach[fr.curBlock], chain, fr.depth+1)
	st.arrs = out.arrs
	if retReach != False {
		// execution continues after the call only if the callee returned normally (this carries
		// the exit conditions of the callee's loops)
		fr.assumeG(retReach)
	}
	if preInline != nil && retReach != False {
		// ghost assignments of an inlined contract take effect at the callee's exit
		genv := ex.specEnv(fr, fn, inlineSpec, args, st, preInline)
		genv.bindResults(fn.Signature, inlineSpec, res)
		for _, gs := range inlineSpec.GhostSets {
			var locs []Loc
			var v *Term
			_, err := ex.safeEval(genv, func() *Term {
				locs = genv.locsOf(gs.Loc)
				v = genv.toGhostSort(genv.eval(gs.Val), ghostSortOfArr(locs[0].arr))
				return True
			})
			if err != "" {
				contractFatal("contract error in ghostset of %s: %s", funcName(fn), err)
			}
			srt := memArrays[locs[0].arr]
			st.set(locs[0].arr, Store(st.get(locs[0].arr, srt), locs[0].addr, v))
		}
	}
	if retReach == False {
		// callee never returns normally (always panics): path ends; give dummies
		res = nil
		for _, T := range resultTypes(fn.Signature) {
			res = append(res, zeroOf(T))
		}
	}
	return res
}

var maxInlineDepth = 12

// callExternalDefault: an external function without a spec: results are
// arbitrary well-formed values; the contents of slice arguments and the
// pointees of pointer arguments may change.
func (fr *Frame) callExternalDefault(fn *ssa.Function, pos token.Pos, st *State, args []*Term) []*Term {
	name := fn.String()
	fr.ex.trusted["external (no spec, conservative havoc of arguments): "+name] = true
	params := fn.Signature.Params()
	var ptypes []types.Type
	if fn.Signature.Recv() != nil {
		ptypes = append(ptypes, fn.Signature.Recv().Type())
	}
	for i := 0; i < params.Len(); i++ {
		ptypes = append(ptypes, params.At(i).Type())
	}
	for i, a := range args {
		if i >= len(ptypes) {
			break
		}
		fr.havocArg(a, ptypes[i], st, pos)
	}
	return fr.havocResults(sanitize(fn.Name()), fn.Signature)
}

func (fr *Frame) havocArg(a *Term, T types.Type, st *State, pos token.Pos) {
	switch u := T.Underlying().(type) {
	case *types.Slice:
		E := u.Elem()
		if _, isB := E.Underlying().(*types.Basic); !isB {
			return
		}
		base := Acc("sbase", a)
		am := st.amem(E)
		if checkFrames {
			fr.obl("extwrite.global", pos, Or(Eq(base, Null), ILt(IntLit(int64(prog.NG)), Acc("rid", base))), "C20")
		}
		st.set(amemName(E), Store(am, base, Fresh("ext$arr", am.Sort.Elem)))
	}
}

// ---------- interface dispatch ----------

func (fr *Frame) invoke(c *ssa.CallCommon, pos token.Pos, st *State, recv *Term, args []*Term) []*Term {
	IT := c.Value.Type()
	tag := Acc("itag", recv)
	fr.obl("nil.iface", pos, Neq(tag, IntLit(0)), "C13")
	impls := closedImpls(IT)
	if impls == nil {
		// open interface: method spec or default
		if sp := lookupIfaceSpec(IT, c.Method.Name()); sp != nil {
			return fr.callBySpecSig(sp, c.Signature(), IT, pos, st, append([]*Term{recv}, args...), IT.String()+"."+c.Method.Name())
		}
		fr.ex.trusted["interface method (no spec, conservative havoc of arguments): "+types.TypeString(IT, qualifier)+"."+c.Method.Name()] = true
		sig := c.Signature()
		for i, a := range args {
			fr.havocArg(a, sig.Params().At(i).Type(), st, pos)
		}
		return fr.havocResults(c.Method.Name(), sig)
	}
	// closed world: case split
	type alt struct {
		g   *Term
		res []*Term
		st  *State
	}
	var alts []alt
	reachB := fr.reach[fr.curBlock]
	for _, it := range impls {
		g := Eq(tag, IntLit(int64(prog.tagOf(it))))
		if g == False {
			continue
		}
		fn := prog.SSA.LookupMethod(it, c.Method.Pkg(), c.Method.Name())
		if fn == nil {
			unsupp("method %s not found on %s", c.Method.Name(), it)
		}
		s2 := st.clone()
		fr.reach[fr.curBlock] = And(reachB, g)
		var rv *Term
		// receiver: wrapper functions for promoted/pointer methods are synthetic; call them by inlining
		rv = fr.unbox(it, recv, s2)
		res := fr.callFunc(fn, pos, s2, append([]*Term{rv}, args...), nil)
		alts = append(alts, alt{g, res, s2})
		if g == True {
			break
		}
	}
	fr.reach[fr.curBlock] = reachB
	if len(alts) == 0 {
		unsupp("no implementation for %s.%s", IT, c.Method.Name())
	}
	var conds []*Term
	var sts []*State
	for _, a := range alts {
		conds = append(conds, a.g)
		sts = append(sts, a.st)
	}
	m := mergeStates(conds, sts)
	st.arrs = m.arrs
	n := len(alts[0].res)
	out := make([]*Term, n)
	for j := 0; j < n; j++ {
		var acc *Term
		for i := len(alts) - 1; i >= 0; i-- {
			if acc == nil {
				acc = alts[i].res[j]
			} else {
				acc = Ite(alts[i].g, alts[i].res[j], acc)
			}
		}
		out[j] = acc
	}
	return out
}

// ---------- dynamic calls (function values) ----------

func (fr *Frame) callDynamic(sig *types.Signature, fnT types.Type, pos token.Pos, st *State, fnv *Term, args []*Term) []*Term {
	fid := Acc("fid", fnv)
	fr.obl("nil.func", pos, Neq(fid, IntLit(0)), "C13")
	if id, ok := fid.IntVal(); ok && id > 0 && int(id) < len(prog.FuncByID) {
		fn := prog.FuncByID[id]
		var fvs []*Term
		for i, fv := range fn.FreeVars {
			fvs = append(fvs, st.load(FldRef(Acc("fenv", fnv), i, "closure$"+fn.Name()), fv.Type()))
		}
		return fr.callFunc(fn, pos, st, args, fvs)
	}
	// candidates: in-scope functions whose address is taken with this signature
	cands := funcValueCandidates(sig)
	if cands != nil && fnTypeClosed(fnT) {
		type alt struct {
			g   *Term
			res []*Term
			st  *State
		}
		var alts []alt
		reachB := fr.reach[fr.curBlock]
		for _, fn := range cands {
			g := Eq(fid, IntLit(int64(prog.funcID(fn))))
			s2 := st.clone()
			fr.reach[fr.curBlock] = And(reachB, g)
			var fvs []*Term
			for i, fv := range fn.FreeVars {
				fvs = append(fvs, s2.load(FldRef(Acc("fenv", fnv), i, "closure$"+fn.Name()), fv.Type()))
			}
			res := fr.callFunc(fn, pos, s2, args, fvs)
			alts = append(alts, alt{g, res, s2})
		}
		fr.reach[fr.curBlock] = reachB
		var gs []*Term
		var sts []*State
		for _, a := range alts {
			gs = append(gs, a.g)
			sts = append(sts, a.st)
		}
		fr.assumeG(Or(gs...)) // closed set (global invariant on the function table)
		m := mergeStates(gs, sts)
		st.arrs = m.arrs
		n := len(alts[0].res)
		out := make([]*Term, n)
		for j := 0; j < n; j++ {
			var acc *Term
			for i := len(alts) - 1; i >= 0; i-- {
				if acc == nil {
					acc = alts[i].res[j]
				} else {
					acc = Ite(alts[i].g, alts[i].res[j], acc)
				}
			}
			out[j] = acc
		}
		return out
	}
	// open function value (user callback): arbitrary results, may write slice arguments
	fr.ex.trusted["function value of type "+types.TypeString(fnT, qualifier)+" (open code: results arbitrary, writes only through its arguments)"] = true
	for i, a := range args {
		fr.havocArg(a, sig.Params().At(i).Type(), st, pos)
	}
	return fr.havocResults("dyn", sig)
}

// fnTypeClosed: named function types declared in scope whose values are only
// ever the package's own functions (tlvHandler).
func fnTypeClosed(T types.Type) bool {
	n, ok := T.(*types.Named)
	return ok && n.Obj().Name() == "tlvHandler"
}

var fvCache = map[string][]*ssa.Function{}

func funcValueCandidates(sig *types.Signature) []*ssa.Function {
	key := types.TypeString(sig, nil)
	if r, ok := fvCache[key]; ok {
		return r
	}
	seen := map[*ssa.Function]bool{}
	var out []*ssa.Function
	for _, fn := range prog.allFuncsWithAnon() {
		for _, b := range fn.Blocks {
			for _, insn := range b.Instrs {
				var ops []*ssa.Value
				ops = insn.Operands(ops)
				for _, op := range ops {
					if op == nil || *op == nil {
						continue
					}
					var f *ssa.Function
					switch v := (*op).(type) {
					case *ssa.Function:
						// skip if it is the callee position of a call
						if ci, ok := insn.(ssa.CallInstruction); ok && ci.Common().Value == v {
							continue
						}
						f = v
					case *ssa.MakeClosure:
						f = v.Fn.(*ssa.Function)
					}
					if f != nil && !seen[f] && types.Identical(f.Signature, sig) && inScope(f) {
						seen[f] = true
						out = append(out, f)
					}
				}
			}
		}
	}
	sort.Slice(out, func(i, j int) bool { return funcName(out[i]) < funcName(out[j]) })
	fvCache[key] = out
	return out
}

// ---------- builtins ----------

func (fr *Frame) builtin(name string, c *ssa.CallCommon, pos token.Pos, st *State, args []*Term) []*Term {
	switch name {
	case "len":
		return []*Term{fr.lenOf(args[0], c.Args[0].Type())}
	case "cap":
		switch u := c.Args[0].Type().Underlying().(type) {
		case *types.Slice:
			return []*Term{Acc("scap", args[0])}
		case *types.Array:
			return []*Term{bv64(u.Len())}
		case *types.Pointer:
			return []*Term{bv64(u.Elem().Underlying().(*types.Array).Len())}
		}
	case "append":
		return []*Term{fr.appendOp(c, pos, st, args)}
	case "copy":
		return []*Term{fr.copyOp(c, pos, st, args)}
	case "print", "println":
		return nil
	case "min", "max":
		a, b := args[0], args[1]
		if a.Sort.Kind == KBV && len(args) == 2 {
			var lt *Term
			if isSigned(c.Args[0].Type()) {
				lt = BVSlt(a, b)
			} else {
				lt = BVUlt(a, b)
			}
			if name == "min" {
				return []*Term{Ite(lt, a, b)}
			}
			return []*Term{Ite(lt, b, a)}
		}
	case "ssa:wrapnilchk":
		fr.obl("nil", pos, Neq(args[0], Null), "C13")
		return []*Term{args[0]}
	case "clear":
	}
	unsupp("builtin %s", name)
	return nil
}

func (fr *Frame) lenOf(v *Term, T types.Type) *Term {
	switch u := T.Underlying().(type) {
	case *types.Slice:
		return Acc("slen", v)
	case *types.Basic:
		return StrLen(v)
	case *types.Array:
		return bv64(u.Len())
	case *types.Pointer:
		return bv64(u.Elem().Underlying().(*types.Array).Len())
	}
	unsupp("len of %s", T)
	return nil
}

// bulkSrc describes the source of a bulk copy.
type bulkSrc struct {
	n     *Term // number of elements
	arr   *Term // source array (nil for strings)
	off   *Term
	str   *Term
	at    func(j *Term) *Term
}

func (fr *Frame) bulkSource(v *Term, T types.Type, st *State) bulkSrc {
	switch u := T.Underlying().(type) {
	case *types.Slice:
		arr := st.arr(u.Elem(), Acc("sbase", v))
		off := Acc("soff", v)
		return bulkSrc{n: Acc("slen", v), arr: arr, off: off, at: func(j *Term) *Term { return Select(arr, BVAdd(off, j)) }}
	case *types.Basic: // string
		StrAt(v, bv64(0)) // declare
		return bulkSrc{n: StrLen(v), str: v, at: func(j *Term) *Term { return StrAt(v, j) }}
	}
	unsupp("bulk source %s", T)
	return bulkSrc{}
}

// bulkWrite returns the array `dst` with cnt elements of src written at
// positions [at, at+cnt).  Small constant counts become explicit stores; others
// a first-class bulk term whose reads are resolved by the term constructors.
func (fr *Frame) bulkWrite(dst *Term, at *Term, src bulkSrc, cnt *Term) *Term {
	if c, ok := cnt.BVVal(); ok && c <= 16 {
		out := dst
		for i := uint64(0); i < c; i++ {
			out = Store(out, BVAdd(at, BVLit(i, 64)), src.at(BVLit(i, 64)))
		}
		return out
	}
	if src.str != nil {
		declFun("bulkstr$"+dst.Sort.S, fmt.Sprintf("(declare-fun %s (%s (_ BitVec 64) Str (_ BitVec 64)) %s)", quoteSym("bulkstr$"+dst.Sort.S), dst.Sort.S, dst.Sort.S))
		return AppN("bulkstr", dst.Sort.S, dst.Sort, dst, at, src.str, cnt)
	}
	declFun("bulk$"+dst.Sort.S, fmt.Sprintf("(declare-fun %s (%s (_ BitVec 64) %s (_ BitVec 64) (_ BitVec 64)) %s)", quoteSym("bulk$"+dst.Sort.S), dst.Sort.S, dst.Sort.S, dst.Sort.S))
	return AppN("bulk", dst.Sort.S, dst.Sort, dst, at, src.arr, src.off, cnt)
}

func (fr *Frame) appendOp(c *ssa.CallCommon, pos token.Pos, st *State, args []*Term) *Term {
	s := args[0]
	sl := c.Args[0].Type().Underlying().(*types.Slice)
	E := sl.Elem()
	src := fr.bulkSource(args[1], c.Args[1].Type(), st)
	n := src.n
	base, off, ln, cp := Acc("sbase", s), Acc("soff", s), Acc("slen", s), Acc("scap", s)
	newLen := BVAdd(ln, n)
	fits := BVUle(newLen, cp)
	if nv, ok := n.BVVal(); ok && nv == 0 {
		return s
	}
	am := st.amem(E)
	amName := amemName(E)
	reachB := fr.reach[fr.curBlock]
	// in-place branch
	var inPlace, inPlaceAM *Term
	if fits != False {
		if checkFrames {
			fr.oblG(And(reachB, fits, Neq(n, bv64(0))), "store.global", pos, ILt(IntLit(int64(prog.NG)), Acc("rid", base)), "C20")
		}
		arr := Select(am, base)
		newArr := fr.bulkWrite(arr, BVAdd(off, ln), src, n)
		inPlaceAM = Store(am, base, newArr)
		inPlace = MkSlice(base, off, newLen, cp)
	}
	if fits == True {
		st.set(amName, inPlaceAM)
		return inPlace
	}
	// reallocation branch: fresh array, same offset, old prefix preserved
	nb := fr.ex.newObj()
	newCap := Fresh("cap", BV(64))
	fr.assumeG(And(BVUle(newLen, newCap), BVUlt(newCap, lim48)))
	fr.noteAlloc(pos, newLen, E)
	oldArr := Select(am, base)
	var startArr *Term
	if base == Null {
		startArr = ConstArr(am.Sort.Elem, zeroOf(E))
	} else {
		startArr = oldArr
	}
	newArr := fr.bulkWrite(startArr, BVAdd(off, ln), src, n)
	reallocAM := Store(am, nb, newArr)
	realloc := MkSlice(nb, off, newLen, newCap)
	if fits == False {
		st.set(amName, reallocAM)
		return realloc
	}
	st.set(amName, Ite(fits, inPlaceAM, reallocAM))
	return Ite(fits, inPlace, realloc)
}

func (fr *Frame) copyOp(c *ssa.CallCommon, pos token.Pos, st *State, args []*Term) *Term {
	d := args[0]
	dl := c.Args[0].Type().Underlying().(*types.Slice)
	E := dl.Elem()
	src := fr.bulkSource(args[1], c.Args[1].Type(), st)
	dlen := Acc("slen", d)
	n := Ite(BVUlt(dlen, src.n), dlen, src.n)
	am := st.amem(E)
	base := Acc("sbase", d)
	if checkFrames {
		fr.oblG(And(fr.reach[fr.curBlock], Neq(n, bv64(0))), "store.global", pos, ILt(IntLit(int64(prog.NG)), Acc("rid", base)), "C20")
	}
	arr := Select(am, base)
	newArr := fr.bulkWrite(arr, Acc("soff", d), src, n)
	st.set(amemName(E), Ite(Eq(n, bv64(0)), am, Store(am, base, newArr)))
	return n
}

func describeCall(c *ssa.CallCommon) string {
	var sb strings.Builder
	if c.IsInvoke() {
		fmt.Fprintf(&sb, "invoke %s", c.Method.Name())
	} else {
		fmt.Fprintf(&sb, "%s", c.Value.Name())
	}
	return sb.String()
}
