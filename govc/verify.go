package main

// Verification of one function body against its contract (or the default
// contract of the zero-annotation sweep), producing the ordered event list.

import (
	"fmt"
	"go/types"
	"sort"
	"strings"

	"golang.org/x/tools/go/ssa"
)

type FuncResult struct {
	Fn          *ssa.Function
	Name        string
	Events      []Event
	Obls        []*Obl
	Unsupported string
	Trusted     []string
	Axioms      []*Term
	Skipped     string
	ContractErr string
}

func verifyFunction(fn *ssa.Function) (res *FuncResult) {
	res = &FuncResult{Fn: fn, Name: funcName(fn)}
	sp := lookupSpec(fn)
	if sp != nil && (sp.Trusted || sp.Opaque) {
		res.Skipped = "trusted contract (body not verified)"
		return
	}
	if fn.Blocks == nil {
		res.Skipped = "no body"
		return
	}
	ex := NewExec(fn)
	defer func() {
		if r := recover(); r != nil {
			if u, ok := r.(unsupported); ok {
				res.Unsupported = u.msg
				res.Events = nil
				res.Obls = nil
				return
			}
			if ce, ok := r.(contractErr); ok {
				res.ContractErr = ce.msg
				res.Events = nil
				res.Obls = nil
				return
			}
			panic(r)
		}
	}()
	pre := NewState("pre")
	ex.pre = pre
	var args []*Term
	for _, p := range fn.Params {
		v := Var("p$"+sanitize(p.Name()), sortOf(p.Type()))
		args = append(args, v)
		if sp != nil && sp.MayGlobal[p.Name()] {
			ex.assume(Or(ex.validVal(v, p.Type(), false), ex.validVal(v, p.Type(), true)))
		} else {
			ex.assume(ex.validVal(v, p.Type(), false))
		}
	}
	var fvs []*Term
	for _, fv := range fn.FreeVars {
		v := Var("fv$"+sanitize(fv.Name()), sortOf(fv.Type()))
		fvs = append(fvs, v)
		ex.assume(ex.validVal(v, fv.Type(), false))
	}
	ex.assume(ILt(IntLit(int64(prog.NG)), ex.A0))
	var env *Env
	if sp != nil {
		env = ex.specEnv(nil, fn, sp, args, pre, pre)
		env.assume = func(t *Term) { ex.assume(t) }
		for _, c := range sp.Requires {
			t, err := ex.safeEval(env, func() *Term { return env.boolOf(c.E) })
			if err != "" {
				contractFatal("contract error in requires of %s: %s", res.Name, err)
			}
			ex.assume(t)
		}
	}
	if sp != nil && sp.Allocates != nil {
		_, err := ex.safeEval(env, func() *Term { ex.allocBound = env.intOf(sp.Allocates); return True })
		if err != "" {
			contractFatal("contract error in allocates of %s: %s", res.Name, err)
		}
	}
	if sp != nil {
		ex.hasFrame = !sp.ModAny
		ex.frameProps = sp.props()
		if len(ex.frameProps) == 0 {
			ex.frameProps = []string{"C20"}
		}
		for _, m := range sp.Modifies {
			_, err := ex.safeEval(env, func() *Term { ex.frameLocs = append(ex.frameLocs, env.locsOf(m)...); return True })
			if err != "" {
				contractFatal("contract error in modifies of %s: %s", res.Name, err)
			}
		}
		for _, gs := range sp.GhostSets {
			_, err := ex.safeEval(env, func() *Term { ex.frameLocs = append(ex.frameLocs, env.locsOf(gs.Loc)...); return True })
			if err != "" {
				contractFatal("contract error in ghostset of %s: %s", res.Name, err)
			}
		}
	}
	vals, out, retReach := ex.run(fn, args, fvs, pre, True, "", 0)
	if sp != nil && retReach != False {
		post := ex.specEnv(ex.topFrame, fn, sp, args, out, pre)
		post.wm = ex.A0
		post.assume = func(t *Term) { ex.assume(Implies(retReach, t)) }
		post.bindResults(fn.Signature, sp, vals)
		ex.topFrame.curState = out
		// ghost assignments at exit (ghostlocal values may mention the function's locals)
		localEnv := *post
		localEnv.vars = map[string]CVal{}
		for k, v := range post.vars {
			localEnv.vars[k] = v
		}
		for _, b := range fn.Blocks {
			for _, insn := range b.Instrs {
				if d, ok := insn.(*ssa.DebugRef); ok && !d.IsAddr && d.Object() != nil {
					if _, exists := post.vars[d.Object().Name()]; exists {
						continue
					}
					if t, ok := ex.topFrame.vals[d.X]; ok {
						localEnv.vars[d.Object().Name()] = CVal{T: t, Ty: d.X.Type()}
					}
				}
			}
		}
		for _, gs := range sp.GhostSets {
			post := post
			if gs.Local {
				post = &localEnv
			}
			var locs []Loc
			var v *Term
			_, err := ex.safeEval(post, func() *Term {
				locs = post.locsOf(gs.Loc)
				cv := post.eval(gs.Val)
				v = post.toGhostSort(cv, ghostSortOfArr(locs[0].arr))
				return True
			})
			if err != "" {
				contractFatal("contract error in ghostset of %s: %s", res.Name, err)
			}
			srt := memArrays[locs[0].arr]
			out.set(locs[0].arr, Store(out.get(locs[0].arr, srt), locs[0].addr, v))
		}
		for _, c := range sp.Ensures {
			t, err := ex.safeEval(post, func() *Term { return post.boolOf(c.E) })
			if err != "" {
				contractFatal("contract error in ensures of %s: %s", res.Name, err)
			}
			name := ""
			if len(c.Labels) > 0 {
				name = c.Labels[0]
			}
			o := &Obl{Fn: res.Name, Kind: "ensures", Guard: retReach, Goal: t, Props: labelProps(c.Labels), Snip: c.Src, Name: name}
			if len(o.Props) == 0 {
				o.Props = []string{"C13"}
			}
			ex.oblige(o)
		}
		// preserved cells
		for _, pc := range sp.Preserves {
			var locs []Loc
			_, err := ex.safeEval(env, func() *Term { locs = env.locsOf(pc.E); return True })
			if err != "" {
				contractFatal("contract error in preserves of %s: %s", res.Name, err)
			}
			var cs []*Term
			for _, l := range locs {
				srt := memArrays[l.arr]
				cs = append(cs, Eq(Select(out.get(l.arr, srt), l.addr), Select(pre.get(l.arr, srt), l.addr)))
			}
			name := ""
			if len(pc.Labels) > 0 {
				name = pc.Labels[0] + "[" + pc.Src + "]"
			}
			props := labelProps(pc.Labels)
			if len(props) == 0 {
				props = sp.props()
			}
			ex.oblige(&Obl{Fn: res.Name, Kind: "ensures", Guard: retReach, Goal: And(cs...), Props: props, Snip: "preserves " + pc.Src, Name: name})
		}
		// frame (for 'modifies anything' only the ghost state is framed)
		ex.frameObligations(res.Name, sp, pre, out, retReach, sp.ModAny)
	}
	res.Events = ex.events
	for _, e := range ex.events {
		if e.Obl != nil {
			res.Obls = append(res.Obls, e.Obl)
		}
	}
	for k := range ex.trusted {
		res.Trusted = append(res.Trusted, k)
	}
	sort.Strings(res.Trusted)
	res.Axioms = append(ex.stringAxioms(), globalAxioms...)
	res.Axioms = append(res.Axioms, scopedAxiomsFor(ex.events)...)
	res.Axioms = append(res.Axioms, ex.heapValidityAxioms()...)
	nameObligations(res)
	return
}

func (ex *Exec) frameObligations(name string, sp *FuncSpec, pre, out *State, guard *Term, ghostOnly bool) {
	var names []string
	for n := range out.arrs {
		names = append(names, n)
	}
	sort.Strings(names)
	for _, n := range names {
		if ghostOnly && !strictGhost[n] {
			continue
		}
		goal := ex.frameFormula(n, out.arrs[n])
		if goal == True {
			continue
		}
		o := &Obl{Fn: name, Kind: "frame", Guard: guard, Goal: goal, Props: ex.frameProps, Snip: "modifies: " + n, Name: "frame." + name + "." + n}
		ex.oblige(o)
	}
}

// nameObligations assigns stable names: explicit labels for contract clauses,
// otherwise <prop>.<kind>.<function>[<source snippet>]#k.
func nameObligations(res *FuncResult) {
	count := map[string]int{}
	for i, o := range res.Obls {
		o.Index = i
		base := o.Name
		o.Labeled = base != ""
		if base == "" {
			prop := "C13"
			if len(o.Props) > 0 {
				prop = o.Props[0]
			}
			sn := o.Snip
			via := ""
			if o.Via != "" {
				parts := strings.Split(o.Via, ">")
				via = "@" + parts[len(parts)-1]
			}
			base = fmt.Sprintf("%s.%s.%s[%s]%s", prop, o.Kind, res.Name, sn, via)
		} else if o.Kind != "ensures" && !strings.HasPrefix(o.Kind, "frame") && !strings.HasPrefix(o.Kind, "requires:") {
			base = base + "." + o.Kind
		}
		count[base]++
		if count[base] > 1 {
			o.Name = fmt.Sprintf("%s#%d", base, count[base])
		} else {
			o.Name = base
		}
	}
}

// hasProp reports whether an obligation belongs to one of the given properties.
func hasProp(o *Obl, props map[string]bool) bool {
	if props == nil {
		return true
	}
	for _, p := range o.Props {
		if props[p] {
			return true
		}
	}
	return false
}

var _ = types.Typ

// heapValidityAxioms: every reference stored in entry-state memory denotes an
// object that existed at entry (Go memory safety): rid <= A0.
func (ex *Exec) heapValidityAxioms() []*Term {
	var out []*Term
	var names []string
	for n := range ex.pre.arrs {
		names = append(names, n)
	}
	sort.Strings(names)
	for _, n := range names {
		if !strings.HasPrefix(n, "M$") && !strings.HasPrefix(n, "A$") {
			continue
		}
		T := keyToType[n[2:]]
		if T == nil || !needsValidity(T) {
			continue
		}
		arr := Var(n+"@pre", memArrays[n])
		r := BoundVar("hv$r", SRef)
		var sel *Term
		var vars []*Term
		if strings.HasPrefix(n, "M$") {
			sel = App("select", arr.Sort.Elem, arr, r)
			vars = []*Term{r}
		} else {
			i := BoundVar("hv$i", BV(64))
			sel = App("select", arr.Sort.Elem.Elem, App("select", arr.Sort.Elem, arr, r), i)
			vars = []*Term{r, i}
		}
		var cs []*Term
		for _, p := range refParts(sel, T) {
			cs = append(cs, Or(Eq(p, Null), ILe(Acc("rid", p), ex.A0)))
		}
		if len(cs) > 0 {
			out = append(out, Forall(vars, And(cs...), sel))
		}
	}
	return out
}

func ghostSortOfArr(arr string) string {
	return specs.GhostFields[strings.TrimPrefix(arr, "G$")]
}
