package main

// Compilation of contract expressions to SMT terms.

import (
	"fmt"
	"go/constant"
	"go/token"
	"go/types"
	"math/big"
	"strings"

	"golang.org/x/tools/go/ssa"
)

type CVal struct {
	T       *Term
	Ty      types.Type // Go type; nil for ghost sorts
	Untyped bool
	N       *big.Int
	IsNil   bool
	Addr    *Term // address if this is an lvalue in memory
	IsType  types.Type
	st      *State
	global  bool
}

type Env struct {
	ex    *Exec
	fr    *Frame
	st    *State
	old   *State
	vars  map[string]CVal
	pkg   *types.Package
	wm    *Term // watermark before the call (for fresh)
	bound map[string]*Term
	where string
	assume func(*Term)
}

type cerr struct{ msg string }

func (env *Env) fail(f string, a ...interface{}) {
	panic(cerr{fmt.Sprintf("%s: ", env.where) + fmt.Sprintf(f, a...)})
}

func (env *Env) withState(st *State) *Env {
	e2 := *env
	e2.st = st
	return &e2
}

var intT = types.Typ[types.Int]

func (env *Env) force(v CVal) CVal {
	if v.T != nil || v.Untyped || v.IsNil {
		return v
	}
	if v.Addr == nil {
		env.fail("value without term")
	}
	st := v.st
	if st == nil {
		st = env.st
	}
	if v.global {
		st = globalState()
	}
	v.T = st.load(v.Addr, v.Ty)
	if needsValidity(v.Ty) && env.assume != nil && !v.T.bound && !v.Addr.bound {
		if v.global {
			env.assume(env.ex.validVal(v.T, v.Ty, true))
		} else {
			env.assume(env.ex.validValAt(v.T, v.Ty, v.Addr))
			if rootIsPre(v.T) {
				for _, r := range refParts(v.T, v.Ty) {
					env.assume(Or(Eq(r, Null), ILe(Acc("rid", r), env.ex.A0)))
				}
			}
		}
	}
	return v
}

// coerce an untyped constant / nil to type T
func (env *Env) coerce(v CVal, T types.Type) CVal {
	if v.IsNil {
		return CVal{T: zeroOf(T), Ty: T}
	}
	if v.Untyped {
		s := sortOf(T)
		if s.Kind != KBV {
			env.fail("cannot use integer constant as %s", T)
		}
		return CVal{T: BVLitBig(v.N, s.W), Ty: T}
	}
	return env.force(v)
}

func (env *Env) coerceGhostInt(v CVal) *Term {
	if v.Untyped {
		if v.N.IsInt64() {
			return IntLit(v.N.Int64())
		}
		if v.N.Sign() < 0 {
			return intern("lit", fmt.Sprintf("(- %s)", new(big.Int).Neg(v.N).String()), SInt)
		}
		return intern("lit", v.N.String(), SInt)
	}
	v = env.force(v)
	if v.T.Sort != SInt {
		env.fail("expected ghost Int, got %s", v.T.Sort.S)
	}
	return v.T
}

func (env *Env) boolOf(e *CExpr) *Term {
	v := env.force(env.eval(e))
	if v.T.Sort != SBool {
		env.fail("expected boolean: %s", e)
	}
	return v.T
}

func (env *Env) intOf(e *CExpr) *Term { // as 64-bit int
	v := env.eval(e)
	if v.Untyped {
		return BVLitBig(v.N, 64)
	}
	v = env.force(v)
	if v.T.Sort.Kind != KBV {
		env.fail("expected integer: %s", e)
	}
	return convInt(v.T, v.Ty, 64)
}

func (env *Env) eval(e *CExpr) CVal {
	env.where = e.Pos
	switch e.Op {
	case "num":
		n := new(big.Int)
		if _, ok := n.SetString(e.Name, 0); !ok {
			env.fail("bad number %s", e.Name)
		}
		return CVal{Untyped: true, N: n}
	case "str":
		return CVal{T: env.ex.strConst(e.Name), Ty: types.Typ[types.String]}
	case "id":
		return env.ident(e.Name)
	case "field":
		return env.field(e)
	case "index":
		return env.index(e)
	case "slice":
		return env.sliceExpr(e)
	case "star":
		p := env.force(env.eval(e.Args[0]))
		pt, ok := p.Ty.Underlying().(*types.Pointer)
		if !ok {
			env.fail("* of non-pointer")
		}
		return CVal{Addr: p.T, Ty: pt.Elem()}
	case "un":
		return env.unary(e)
	case "bin":
		return env.binary(e)
	case "call":
		return env.callExpr(e)
	case "forall", "exists":
		return env.quant(e)
	case "forallint":
		return env.quantInt(e)
	}
	env.fail("cannot evaluate %s", e)
	return CVal{}
}

func (env *Env) ident(name string) CVal {
	if b, ok := env.bound[name]; ok {
		if b.Sort == SInt {
			return CVal{T: b}
		}
		return CVal{T: b, Ty: intT}
	}
	if v, ok := env.vars[name]; ok {
		if v.st == nil && v.Addr != nil {
			// address-taken local or result cell: read in current state
		}
		return v
	}
	switch name {
	case "nil":
		return CVal{IsNil: true}
	case "true":
		return CVal{T: True, Ty: types.Typ[types.Bool]}
	case "false":
		return CVal{T: False, Ty: types.Typ[types.Bool]}
	}
	if t := basicTypeByName(name); t != nil {
		return CVal{IsType: t}
	}
	// package scope (own package, then otr3 for convenience)
	for _, pk := range env.scopes() {
		obj := pk.Scope().Lookup(name)
		if obj == nil {
			continue
		}
		switch o := obj.(type) {
		case *types.Const:
			return constCVal(o.Val(), o.Type())
		case *types.TypeName:
			return CVal{IsType: o.Type()}
		case *types.Var:
			for g, id := range prog.Globals {
				if g.Object() == o {
					return CVal{Addr: ObjRef(IntLit(int64(id))), Ty: o.Type(), global: true}
				}
			}
		}
	}
	env.fail("unknown identifier %q", name)
	return CVal{}
}

func (env *Env) scopes() []*types.Package {
	var out []*types.Package
	if env.pkg != nil {
		out = append(out, env.pkg)
	}
	for _, sp := range prog.SPkgs {
		if sp.Pkg != env.pkg {
			out = append(out, sp.Pkg)
		}
	}
	return out
}

func constCVal(v constant.Value, T types.Type) CVal {
	switch v.Kind() {
	case constant.Int:
		n := new(big.Int)
		n.SetString(v.ExactString(), 10)
		if b, ok := T.Underlying().(*types.Basic); ok && b.Info()&types.IsUntyped != 0 {
			return CVal{Untyped: true, N: n}
		}
		s := sortOf(T)
		return CVal{T: BVLitBig(n, s.W), Ty: T}
	case constant.Bool:
		return CVal{T: BoolLit(constant.BoolVal(v)), Ty: T}
	case constant.String:
		return CVal{Ty: T}.withStr(constant.StringVal(v))
	}
	panic(cerr{"unsupported constant kind"})
}

var curExec *Exec

func (v CVal) withStr(s string) CVal {
	v.T = curExec.strConst(s)
	return v
}

func goToken(op string) token.Token {
	m := map[string]token.Token{"+": token.ADD, "-": token.SUB, "*": token.MUL, "/": token.QUO, "%": token.REM, "&": token.AND, "|": token.OR, "^": token.XOR,
		"<<": token.SHL, ">>": token.SHR, "&^": token.AND_NOT, "==": token.EQL, "!=": token.NEQ, "<": token.LSS, "<=": token.LEQ, ">": token.GTR, ">=": token.GEQ}
	return m[op]
}

// pureBinop: Go operator semantics without safety obligations (contract expressions are total).
func (env *Env) pureBinop(op token.Token, a, b CVal) *Term {
	fr := &Frame{ex: env.ex, reach: map[*ssa.BasicBlock]*Term{nil: True}, silent: true, curState: env.st}
	if env.fr != nil {
		fr.assumeHook = env.assume
	}
	return fr.binop(op, a.T, b.T, a.Ty, b.Ty, token.NoPos)
}

func basicTypeByName(name string) types.Type {
	switch name {
	case "int":
		return types.Typ[types.Int]
	case "int8":
		return types.Typ[types.Int8]
	case "int16":
		return types.Typ[types.Int16]
	case "int32":
		return types.Typ[types.Int32]
	case "int64":
		return types.Typ[types.Int64]
	case "uint":
		return types.Typ[types.Uint]
	case "uint8", "byte":
		return types.Typ[types.Uint8]
	case "uint16":
		return types.Typ[types.Uint16]
	case "uint32":
		return types.Typ[types.Uint32]
	case "uint64":
		return types.Typ[types.Uint64]
	case "bool":
		return types.Typ[types.Bool]
	case "string":
		return types.Typ[types.String]
	}
	return nil
}

func (env *Env) field(e *CExpr) CVal {
	base := env.eval(e.Args[0])
	name := e.Name
	T := base.Ty
	if T == nil {
		env.fail("field %s of ghost value", name)
	}
	// auto-deref pointer
	if pt, ok := T.Underlying().(*types.Pointer); ok {
		b := env.force(base)
		base = CVal{Addr: b.T, Ty: pt.Elem(), st: base.st}
		T = pt.Elem()
	}
	st, ok := T.Underlying().(*types.Struct)
	if !ok {
		env.fail("field %s of non-struct %s", name, T)
	}
	// find field path (including embedded)
	obj, idxs, _ := types.LookupFieldOrMethod(T, true, env.pkgFor(T), name)
	fv, isVar := obj.(*types.Var)
	if !isVar || !fv.IsField() {
		// try any package (unexported fields of otr3 types)
		for i := 0; i < st.NumFields(); i++ {
			if st.Field(i).Name() == name {
				idxs = []int{i}
				fv = st.Field(i)
				isVar = true
			}
		}
		if !isVar || fv == nil {
			env.fail("no field %s in %s", name, T)
		}
	}
	cur := base
	curT := T
	for _, ix := range idxs {
		if pt, ok := curT.Underlying().(*types.Pointer); ok {
			b := env.force(cur)
			cur = CVal{Addr: b.T, Ty: pt.Elem(), st: cur.st}
			curT = pt.Elem()
		}
		si := structInfo(curT)
		ft := si.Fields[ix].T
		if cur.Addr != nil {
			cur = CVal{Addr: FldRef(cur.Addr, ix, si.Key), Ty: ft, st: cur.st, global: cur.global}
		} else {
			cur = CVal{T: StructField(si, cur.T, ix), Ty: ft}
		}
		curT = ft
	}
	return cur
}

func (env *Env) pkgFor(T types.Type) *types.Package {
	if n, ok := T.(*types.Named); ok && n.Obj().Pkg() != nil {
		return n.Obj().Pkg()
	}
	return env.pkg
}

func (env *Env) stateOf(v CVal) *State {
	if v.global {
		return globalState()
	}
	if v.st != nil {
		return v.st
	}
	return env.st
}

func (env *Env) index(e *CExpr) CVal {
	base := env.eval(e.Args[0])
	idx := env.intOf(e.Args[1])
	switch u := base.Ty.Underlying().(type) {
	case *types.Slice:
		b := env.force(base)
		addr := ElemRef(Acc("sbase", b.T), BVAdd(Acc("soff", b.T), idx), typeKey(u.Elem()))
		return CVal{Addr: addr, Ty: u.Elem(), st: base.st, global: base.global}
	case *types.Array:
		if base.Addr != nil {
			return CVal{Addr: ElemRef(base.Addr, idx, typeKey(u.Elem())), Ty: u.Elem(), st: base.st, global: base.global}
		}
		return CVal{T: Select(base.T, idx), Ty: u.Elem()}
	case *types.Basic:
		b := env.force(base)
		return CVal{T: StrAt(b.T, idx), Ty: types.Typ[types.Uint8]}
	}
	env.fail("cannot index %s", base.Ty)
	return CVal{}
}

func (env *Env) sliceExpr(e *CExpr) CVal {
	base := env.eval(e.Args[0])
	var lo, hi *Term
	if e.Args[1] != nil {
		lo = env.intOf(e.Args[1])
	} else {
		lo = bv64(0)
	}
	switch u := base.Ty.Underlying().(type) {
	case *types.Slice:
		b := env.force(base).T
		if e.Args[2] != nil {
			hi = env.intOf(e.Args[2])
		} else {
			hi = Acc("slen", b)
		}
		return CVal{T: MkSlice(Acc("sbase", b), BVAdd(Acc("soff", b), lo), BVSub(hi, lo), BVSub(Acc("scap", b), lo)), Ty: base.Ty}
	case *types.Array:
		if base.Addr == nil {
			env.fail("slicing a non-addressable array")
		}
		n := bv64(u.Len())
		if e.Args[2] != nil {
			hi = env.intOf(e.Args[2])
		} else {
			hi = n
		}
		return CVal{T: MkSlice(base.Addr, lo, BVSub(hi, lo), BVSub(n, lo)), Ty: types.NewSlice(u.Elem())}
	}
	env.fail("cannot slice %s", base.Ty)
	return CVal{}
}

func (env *Env) unary(e *CExpr) CVal {
	v := env.eval(e.Args[0])
	switch e.Name {
	case "!":
		v = env.force(v)
		return CVal{T: Not(v.T), Ty: v.Ty}
	case "-":
		if v.Untyped {
			return CVal{Untyped: true, N: new(big.Int).Neg(v.N)}
		}
		v = env.force(v)
		return CVal{T: BVNeg(v.T), Ty: v.Ty}
	case "^":
		v = env.force(v)
		return CVal{T: BVNot(v.T), Ty: v.Ty}
	}
	env.fail("unary %s", e.Name)
	return CVal{}
}

func (env *Env) binary(e *CExpr) CVal {
	op := e.Name
	boolT := types.Typ[types.Bool]
	switch op {
	case "&&":
		return CVal{T: And(env.boolOf(e.Args[0]), env.boolOf(e.Args[1])), Ty: boolT}
	case "||":
		return CVal{T: Or(env.boolOf(e.Args[0]), env.boolOf(e.Args[1])), Ty: boolT}
	case "==>":
		return CVal{T: Implies(env.boolOf(e.Args[0]), env.boolOf(e.Args[1])), Ty: boolT}
	case "<==>":
		return CVal{T: Eq(env.boolOf(e.Args[0]), env.boolOf(e.Args[1])), Ty: boolT}
	}
	a, b := env.eval(e.Args[0]), env.eval(e.Args[1])
	// constant folding of untyped
	if a.Untyped && b.Untyped {
		r := new(big.Int)
		switch op {
		case "+":
			return CVal{Untyped: true, N: r.Add(a.N, b.N)}
		case "-":
			return CVal{Untyped: true, N: r.Sub(a.N, b.N)}
		case "*":
			return CVal{Untyped: true, N: r.Mul(a.N, b.N)}
		case "/":
			return CVal{Untyped: true, N: r.Quo(a.N, b.N)}
		case "<<":
			return CVal{Untyped: true, N: r.Lsh(a.N, uint(b.N.Int64()))}
		case "==":
			return CVal{T: BoolLit(a.N.Cmp(b.N) == 0), Ty: boolT}
		case "<":
			return CVal{T: BoolLit(a.N.Cmp(b.N) < 0), Ty: boolT}
		case "<=":
			return CVal{T: BoolLit(a.N.Cmp(b.N) <= 0), Ty: boolT}
		}
		env.fail("untyped constant op %s", op)
	}
	// ghost Int arithmetic
	aGhost := !a.Untyped && !a.IsNil && a.Ty == nil
	bGhost := !b.Untyped && !b.IsNil && b.Ty == nil
	if aGhost || bGhost {
		return env.ghostBinary(op, a, b)
	}
	switch {
	case (a.Untyped || a.IsNil) && !(b.Untyped || b.IsNil):
		b = env.force(b)
		if op == "<<" || op == ">>" {
			a = env.coerce(a, intT)
		} else {
			a = env.coerce(a, b.Ty)
		}
	case (b.Untyped || b.IsNil) && !(a.Untyped || a.IsNil):
		a = env.force(a)
		if op == "<<" || op == ">>" {
			b = env.coerce(b, types.Typ[types.Uint])
		} else {
			b = env.coerce(b, a.Ty)
		}
	case a.IsNil && b.IsNil:
		return CVal{T: BoolLit(op == "=="), Ty: boolT}
	default:
		a, b = env.force(a), env.force(b)
	}
	tok := map[string]string{"+": "+", "-": "-", "*": "*", "/": "/", "%": "%", "&": "&", "|": "|", "^": "^", "<<": "<<", ">>": ">>", "&^": "&^",
		"==": "==", "!=": "!=", "<": "<", "<=": "<=", ">": ">", ">=": ">="}
	switch op {
	case "===", "!==":
		r := Eq(a.T, b.T)
		if op == "!==" {
			r = Not(r)
		}
		return CVal{T: r, Ty: boolT}
	}
	if _, ok := tok[op]; !ok {
		env.fail("operator %s", op)
	}
	if a.T.Sort != b.T.Sort {
		// allow mixed widths for shifts only
		if op != "<<" && op != ">>" {
			env.fail("operand sorts differ in %s: %s vs %s", e, a.T.Sort.S, b.T.Sort.S)
		}
	}
	res := env.pureBinop(goToken(op), a, b)
	rt := a.Ty
	switch op {
	case "==", "!=", "<", "<=", ">", ">=":
		rt = boolT
	}
	return CVal{T: res, Ty: rt}
}

func (env *Env) ghostBinary(op string, a, b CVal) CVal {
	// ghost sorts: Int arithmetic/comparison, or equality of other ghost sorts
	isIntLike := func(v CVal) bool { return v.Untyped || (v.T != nil && v.T.Sort == SInt) }
	if op == "==" || op == "!=" {
		var x, y *Term
		if isIntLike(a) && isIntLike(b) {
			x, y = env.coerceGhostInt(a), env.coerceGhostInt(b)
		} else {
			x, y = env.force(a).T, env.force(b).T
		}
		r := Eq(x, y)
		if op == "!=" {
			r = Not(r)
		}
		return CVal{T: r, Ty: types.Typ[types.Bool]}
	}
	x, y := env.coerceGhostInt(a), env.coerceGhostInt(b)
	boolT := types.Typ[types.Bool]
	switch op {
	case "+":
		return CVal{T: IAdd(x, y)}
	case "-":
		return CVal{T: App("-", SInt, x, y)}
	case "*":
		return CVal{T: App("*", SInt, x, y)}
	case "/":
		return CVal{T: App("div", SInt, x, y)}
	case "%":
		return CVal{T: App("mod", SInt, x, y)}
	case "<":
		return CVal{T: ILt(x, y), Ty: boolT}
	case "<=":
		return CVal{T: ILe(x, y), Ty: boolT}
	case ">":
		return CVal{T: ILt(y, x), Ty: boolT}
	case ">=":
		return CVal{T: ILe(y, x), Ty: boolT}
	}
	env.fail("ghost operator %s", op)
	return CVal{}
}

func (env *Env) quant(e *CExpr) CVal {
	name := e.Name
	// a bounded quantifier over a small literal range is expanded (no trigger needed)
	if len(e.Args) == 3 {
		lo, hi := env.intOf(e.Args[1]), env.intOf(e.Args[2])
		if l, ok1 := lo.BVVal(); ok1 {
			if h, ok2 := hi.BVVal(); ok2 && int64(h)-int64(l) <= 16 && int64(h) >= int64(l) {
				var parts []*Term
				for i := int64(l); i < int64(h); i++ {
					e3 := *env
					e3.bound = map[string]*Term{}
					for k, v := range env.bound {
						e3.bound[k] = v
					}
					e3.bound[name] = BVLit(uint64(i), 64)
					parts = append(parts, e3.boolOf(e.Args[0]))
				}
				var t *Term
				if e.Op == "forall" {
					t = And(parts...)
				} else {
					t = Or(parts...)
				}
				return CVal{T: t, Ty: types.Typ[types.Bool]}
			}
		}
	}
	bv := BoundVar("q$"+name, BV(64))
	e2 := *env
	e2.bound = map[string]*Term{}
	for k, v := range env.bound {
		e2.bound[k] = v
	}
	e2.bound[name] = bv
	body := e2.boolOf(e.Args[0])
	if len(e.Args) == 3 {
		lo, hi := e2.intOf(e.Args[1]), e2.intOf(e.Args[2])
		rng := And(BVSle(lo, bv), BVSlt(bv, hi))
		if e.Op == "forall" {
			body = Implies(rng, body)
		} else {
			body = And(rng, body)
		}
	}
	var t *Term
	pats := autoPatterns(body, bv)
	if e.Op == "forall" {
		t = Forall([]*Term{bv}, body, pats...)
	} else {
		t = Not(Forall([]*Term{bv}, Not(body), pats...))
	}
	return CVal{T: t, Ty: types.Typ[types.Bool]}
}

// quantInt: universal quantifier over the mathematical integers (ghost Int).  The trigger is the
// smallest application of an uninterpreted ghost function that mentions the bound variable.
func (env *Env) quantInt(e *CExpr) CVal {
	names := strings.Split(e.Name, ",")
	e2 := *env
	e2.bound = map[string]*Term{}
	for k, v := range env.bound {
		e2.bound[k] = v
	}
	var bvs []*Term
	for _, n := range names {
		bv := BoundVar("qi$"+n, SInt)
		bvs = append(bvs, bv)
		e2.bound[n] = bv
	}
	body := e2.boolOf(e.Args[0])
	var mentions func(t, bv *Term) bool
	mentions = func(t, bv *Term) bool {
		if t == bv {
			return true
		}
		for _, a := range t.Args {
			if mentions(a, bv) {
				return true
			}
		}
		return false
	}
	var arithFree func(t *Term) bool
	arithFree = func(t *Term) bool {
		switch t.Op {
		case "*", "mod", "div", "+", "-":
			return false
		}
		for _, a := range t.Args {
			if !arithFree(a) {
				return false
			}
		}
		return true
	}
	// candidate triggers: applications of uninterpreted ghost functions without arithmetic inside
	var cands []*Term
	seen := map[int]bool{}
	var walk func(t *Term)
	walk = func(t *Term) {
		if seen[t.id] {
			return
		}
		seen[t.id] = true
		if _, isGhost := specs.Ghosts[t.Op]; isGhost && patternOK(t) && arithFree(t) {
			cands = append(cands, t)
		}
		for _, a := range t.Args {
			walk(a)
		}
	}
	walk(body)
	var pats []*Term
	var all *Term
	for _, t := range cands {
		ok := true
		for _, bv := range bvs {
			if !mentions(t, bv) {
				ok = false
			}
		}
		if ok && (all == nil || termSize(t) < termSize(all)) {
			all = t
		}
	}
	if all != nil {
		pats = []*Term{all}
	} else {
		for _, bv := range bvs {
			var best *Term
			for _, t := range cands {
				if mentions(t, bv) && (best == nil || termSize(t) < termSize(best)) {
					best = t
				}
			}
			if best != nil {
				dup := false
				for _, q := range pats {
					if q == best {
						dup = true
					}
				}
				if !dup {
					pats = append(pats, best)
				}
			}
		}
	}
	return CVal{T: Forall(bvs, body, pats...), Ty: types.Typ[types.Bool]}
}

func (env *Env) callExpr(e *CExpr) CVal {
	boolT := types.Typ[types.Bool]
	name := e.Name
	arg := func(i int) CVal { return env.eval(e.Args[i]) }
	switch name {
	case "old":
		if env.old == nil {
			env.fail("old() not available here")
		}
		v := env.withState(env.old).eval(e.Args[0])
		v = env.withState(env.old).force(v)
		v.Addr = nil
		return v
	case "len", "cap":
		v := env.force(arg(0))
		switch u := v.Ty.Underlying().(type) {
		case *types.Slice:
			if name == "len" {
				return CVal{T: Acc("slen", v.T), Ty: intT}
			}
			return CVal{T: Acc("scap", v.T), Ty: intT}
		case *types.Basic:
			return CVal{T: StrLen(v.T), Ty: intT}
		case *types.Array:
			return CVal{T: bv64(u.Len()), Ty: intT}
		}
		env.fail("len of %s", v.Ty)
	case "typeis":
		v := env.force(arg(0))
		t := arg(1)
		if t.IsType == nil {
			env.fail("typeis: second argument must be a type")
		}
		return CVal{T: Eq(Acc("itag", v.T), IntLit(int64(prog.tagOf(t.IsType)))), Ty: boolT}
	case "typeisptr":
		v := env.force(arg(0))
		t := arg(1)
		return CVal{T: Eq(Acc("itag", v.T), IntLit(int64(prog.tagOf(types.NewPointer(t.IsType))))), Ty: boolT}
	case "unbox":
		v := env.force(arg(0))
		t := arg(1)
		if isEmptyStruct(t.IsType) {
			return CVal{T: zeroOf(t.IsType), Ty: t.IsType}
		}
		if _, isP := t.IsType.Underlying().(*types.Pointer); isP {
			return CVal{T: Acc("iref", v.T), Ty: t.IsType}
		}
		return CVal{Addr: Acc("iref", v.T), Ty: t.IsType}
	case "fresh":
		v := env.force(arg(0))
		if env.wm == nil {
			env.fail("fresh() outside a postcondition")
		}
		var cs []*Term
		for _, r := range refParts(v.T, v.Ty) {
			cs = append(cs, And(Neq(r, Null), ILt(env.wm, Acc("rid", r))))
		}
		return CVal{T: And(cs...), Ty: boolT}
	case "within":
		p, s := env.force(arg(0)), env.force(arg(1))
		pb, sb := Acc("sbase", p.T), Acc("sbase", s.T)
		po, so := Acc("soff", p.T), Acc("soff", s.T)
		return CVal{T: And(Eq(pb, sb), BVUle(so, po), BVUle(BVAdd(po, Acc("slen", p.T)), BVAdd(so, Acc("slen", s.T))),
			BVUle(Acc("slen", p.T), Acc("scap", p.T)), BVUle(BVAdd(po, Acc("scap", p.T)), BVAdd(so, Acc("scap", s.T)))), Ty: boolT}
	case "sbaseSame": // same backing array and offset (a prefix/reslice of the same slice)
		p, q := env.force(arg(0)), env.force(arg(1))
		return CVal{T: And(Eq(Acc("sbase", p.T), Acc("sbase", q.T)), Eq(Acc("soff", p.T), Acc("soff", q.T))), Ty: boolT}
	case "str": // string([]byte) as in a Go conversion
		b := env.force(arg(0))
		sl := b.Ty.Underlying().(*types.Slice)
		arr := env.stateOf(b).arr(sl.Elem(), Acc("sbase", b.T))
		return CVal{T: UF("str_of_bytes", SStr, arr, Acc("soff", b.T), Acc("slen", b.T)), Ty: types.Typ[types.String]}
	case "addr": // pointer to an lvalue
		v := arg(0)
		if v.Addr == nil {
			env.fail("addr() of a non-lvalue")
		}
		return CVal{T: v.Addr, Ty: types.NewPointer(v.Ty)}
	case "payloadNonNil": // the pointer stored in an interface value is not nil
		v := env.force(arg(0))
		return CVal{T: Neq(Acc("iref", v.T), Null), Ty: boolT}
	case "fid":
		f := env.force(arg(0))
		return CVal{T: Acc("fid", f.T)}
	case "nonglobal":
		v := env.force(arg(0))
		var cs []*Term
		for _, r := range refParts(v.T, v.Ty) {
			cs = append(cs, Or(Eq(r, Null), ILt(IntLit(int64(prog.NG)), Acc("rid", r))))
		}
		return CVal{T: And(cs...), Ty: boolT}
	case "ite":
		c := env.boolOf(e.Args[0])
		a, b := arg(1), arg(2)
		if a.Untyped && !b.Untyped {
			b = env.force(b)
			a = env.coerce(a, b.Ty)
		} else if b.Untyped && !a.Untyped {
			a = env.force(a)
			b = env.coerce(b, a.Ty)
		} else {
			a, b = env.coerce(a, intT), env.coerce(b, intT)
		}
		return CVal{T: Ite(c, a.T, b.T), Ty: a.Ty}
	case "unchanged":
		var cs []*Term
		for _, a := range e.Args {
			cur := env.force(env.eval(a))
			old := env.withState(env.old).force(env.withState(env.old).eval(a))
			cs = append(cs, env.eqVals(cur, old))
		}
		return CVal{T: And(cs...), Ty: boolT}
	case "be16", "be32", "be64":
		s := env.force(arg(0))
		i := env.intOf(e.Args[1])
		n := map[string]int{"be16": 2, "be32": 4, "be64": 8}[name]
		sl := s.Ty.Underlying().(*types.Slice)
		arr := env.stateOf(s).arr(sl.Elem(), Acc("sbase", s.T))
		off := BVAdd(Acc("soff", s.T), i)
		var acc *Term
		for k := 0; k < n; k++ {
			b := Select(arr, BVAdd(off, bv64(int64(k))))
			if acc == nil {
				acc = b
			} else {
				acc = Concat(acc, b)
			}
		}
		ty := map[int]types.Type{2: types.Typ[types.Uint16], 4: types.Typ[types.Uint32], 8: types.Typ[types.Uint64]}[n]
		return CVal{T: acc, Ty: ty}
	case "be64arr", "be32arr", "be16arr": // big-endian value of the first bytes of an array value
		a := env.force(arg(0))
		n := map[string]int{"be16arr": 2, "be32arr": 4, "be64arr": 8}[name]
		var acc *Term
		for k := 0; k < n; k++ {
			b := Select(a.T, bv64(int64(k)))
			if acc == nil {
				acc = b
			} else {
				acc = Concat(acc, b)
			}
		}
		ty := map[int]types.Type{2: types.Typ[types.Uint16], 4: types.Typ[types.Uint32], 8: types.Typ[types.Uint64]}[n]
		return CVal{T: acc, Ty: ty}
	case "bytes":
		s := env.force(arg(0))
		return CVal{T: env.bsOf(s)}
	case "ioEOF": // the value of the package-level variable io.EOF
		et := types.Universe.Lookup("error").Type()
		return CVal{T: Select(globalState().mem(et), ObjRef(IntLit(int64(extGlobalID("io.EOF"))))), Ty: et}
	case "iref": // the reference stored in an interface value
		v := env.force(arg(0))
		return CVal{T: Acc("iref", v.T)}
	case "byte1": // the one-byte string []byte{b} as the code builds it
		b := env.coerce(arg(0), types.Typ[types.Uint8])
		arr := Store(ConstArr(ArrSort(BV(64), BV(8)), BVLit(0, 8)), bv64(0), b.T)
		return CVal{T: UF("bs_of", SBS, arr, bv64(0), bv64(1))}
	case "bytesarrv": // bytes of a fixed-size array value
		a := env.force(arg(0))
		at := a.Ty.Underlying().(*types.Array)
		return CVal{T: UF("bs_of", SBS, a.T, bv64(0), bv64(at.Len()))}
	case "bytesof": // bytes of an addressable fixed array
		a := arg(0)
		at := a.Ty.Underlying().(*types.Array)
		arr := Select(env.stateOf(a).amem(at.Elem()), a.Addr)
		return CVal{T: UF("bs_of", SBS, arr, bv64(0), bv64(at.Len()))}
	case "zeroed":
		s := env.force(arg(0))
		sl := s.Ty.Underlying().(*types.Slice)
		arr := env.stateOf(s).arr(sl.Elem(), Acc("sbase", s.T))
		j := BoundVar("z$j", BV(64))
		off, ln := Acc("soff", s.T), Acc("slen", s.T)
		return CVal{T: Forall([]*Term{j}, Implies(BVUlt(j, ln), Eq(Select(arr, BVAdd(off, j)), zeroOf(sl.Elem())))), Ty: boolT}
	case "toInt": // machine integer to ghost Int (unsigned)
		v := env.force(arg(0))
		return CVal{T: UF(fmt.Sprintf("bv2nat%d", v.T.Sort.W), SInt, v.T)}
	}
	if m, ok := specs.Macros[name]; ok {
		if len(m.Params) != len(e.Args) {
			env.fail("macro %s arity", name)
		}
		sub := map[string]*CExpr{}
		for i, p := range m.Params {
			sub[p] = e.Args[i]
		}
		return env.eval(substC(m.Body, sub))
	}
	if gs, ok := specs.GhostFields[name]; ok {
		p := arg(0)
		if !p.IsNil {
			p = env.force(p)
		}
		srt := ArrSort(SRef, ghostSort(gs))
		memArrays["G$"+name] = srt
		st := env.stateOf(p)
		if isGlobalAddr(refOfVal(p)) {
			st = globalState()
		}
		return CVal{T: Select(st.get("G$"+name, srt), refOfVal(p)), Ty: ghostGoType(gs)}
	}
	if g, ok := specs.Ghosts[name]; ok {
		var as []*Term
		for i, a := range e.Args {
			v := env.eval(a)
			as = append(as, env.toGhostSort(v, g.Args[i]))
		}
		res := ghostSort(g.Res)
		declFun(name, fmt.Sprintf("(declare-fun %s (%s) %s)", name, strings.Join(ghostSortNames(g.Args), " "), res.S))
		return CVal{T: App(name, res, as...), Ty: ghostGoType(g.Res)}
	}
	// conversions
	if t := env.typeByName(name); t != nil && len(e.Args) == 1 {
		v := arg(0)
		if v.Untyped {
			return env.coerce(v, t)
		}
		v = env.force(v)
		if v.T.Sort.Kind == KBV && sortOf(t).Kind == KBV {
			return CVal{T: convInt(v.T, v.Ty, sortOf(t).W), Ty: t}
		}
		if v.T.Sort == sortOf(t) {
			return CVal{T: v.T, Ty: t}
		}
		env.fail("conversion %s(%s)", name, v.Ty)
	}
	env.fail("unknown function %s", name)
	return CVal{}
}

func ghostSortNames(xs []string) []string {
	var out []string
	for _, x := range xs {
		out = append(out, ghostSort(x).S)
	}
	return out
}

func ghostSort(name string) *Sort {
	switch name {
	case "Int":
		return SInt
	case "Bool":
		return SBool
	case "BS":
		return SBS
	case "Ref":
		return SRef
	case "Str":
		return SStr
	case "Slice":
		return SSlice
	case "Iface":
		return SIface
	case "BV8":
		return BV(8)
	case "BV16":
		return BV(16)
	case "BV32":
		return BV(32)
	case "BV64":
		return BV(64)
	}
	panic(cerr{"unknown ghost sort " + name})
}

func ghostGoType(name string) types.Type {
	switch name {
	case "Bool":
		return types.Typ[types.Bool]
	case "BV8":
		return types.Typ[types.Uint8]
	case "BV16":
		return types.Typ[types.Uint16]
	case "BV32":
		return types.Typ[types.Uint32]
	case "BV64":
		return types.Typ[types.Uint64]
	case "Str":
		return types.Typ[types.String]
	}
	return nil
}

func (env *Env) toGhostSort(v CVal, sortName string) *Term {
	s := ghostSort(sortName)
	if v.Untyped {
		if s == SInt {
			return env.coerceGhostInt(v)
		}
		if s.Kind == KBV {
			return BVLitBig(v.N, s.W)
		}
	}
	if v.IsNil {
		if s == SRef {
			return Null
		}
	}
	v = env.force(v)
	if v.T.Sort == s {
		return v.T
	}
	if s == SBool && v.T.Sort == SBool {
		return v.T
	}
	if s == SRef && v.T.Sort == SIface {
		return Acc("iref", v.T)
	}
	if s == SBS && v.Ty != nil {
		if _, ok := v.Ty.Underlying().(*types.Slice); ok {
			return env.bsOf(v)
		}
	}
	env.fail("argument of sort %s where %s expected", v.T.Sort.S, s.S)
	return nil
}

func (env *Env) bsOf(s CVal) *Term {
	sl, ok := s.Ty.Underlying().(*types.Slice)
	if !ok {
		env.fail("bytes() of non-slice")
	}
	arr := env.stateOf(s).arr(sl.Elem(), Acc("sbase", s.T))
	return UF("bs_of", SBS, arr, Acc("soff", s.T), Acc("slen", s.T))
}

func (env *Env) typeByName(name string) types.Type {
	if t := basicTypeByName(name); t != nil {
		return t
	}
	for _, pk := range env.scopes() {
		if o, ok := pk.Scope().Lookup(name).(*types.TypeName); ok {
			return o.Type()
		}
	}
	return nil
}

func (env *Env) eqVals(a, b CVal) *Term {
	if a.T.Sort == SIface {
		fr := env.fr
		if fr != nil {
			save := fr.curState
			fr.curState = env.st
			defer func() { fr.curState = save }()
			return fr.ifaceEq(a.T, b.T)
		}
	}
	return Eq(a.T, b.T)
}

func substC(e *CExpr, sub map[string]*CExpr) *CExpr {
	if e == nil {
		return nil
	}
	if e.Op == "id" {
		if r, ok := sub[e.Name]; ok {
			return r
		}
		return e
	}
	n := *e
	n.Args = make([]*CExpr, len(e.Args))
	for i, a := range e.Args {
		n.Args[i] = substC(a, sub)
	}
	return &n
}

func refOfVal(p CVal) *Term {
	if p.IsNil {
		return Null
	}
	switch p.T.Sort {
	case SRef:
		return p.T
	case SIface:
		return Acc("iref", p.T)
	case SSlice:
		return Acc("sbase", p.T)
	}
	panic(cerr{"ghost field of a value that is not a reference"})
}

// autoPatterns: E-matching triggers for a contract quantifier: the smallest
// select terms whose index mentions the bound variable (one pattern each, used
// as alternatives is not expressible in one :pattern, so the first is taken).
func autoPatterns(body, bv *Term) []*Term {
	var best *Term
	seen := map[int]bool{}
	var mentions func(t *Term) bool
	memo := map[int]bool{}
	mentions = func(t *Term) bool {
		if v, ok := memo[t.id]; ok {
			return v
		}
		r := t == bv
		for _, a := range t.Args {
			if mentions(a) {
				r = true
			}
		}
		memo[t.id] = r
		return r
	}
	var walk func(t *Term)
	walk = func(t *Term) {
		if seen[t.id] || !mentions(t) {
			return
		}
		seen[t.id] = true
		if t.Op == "forall" || t.Op == "exists" {
			return
		}
		if t.Op == "select" && mentions(t.Args[1]) && !mentions(t.Args[0]) && patternOK(t) {
			if best == nil || termSize(t) < termSize(best) {
				best = t
			}
			return
		}
		for _, a := range t.Args {
			walk(a)
		}
	}
	walk(body)
	if best == nil {
		return nil
	}
	return []*Term{best}
}

func termSize(t *Term) int {
	n := 1
	for _, a := range t.Args {
		n += termSize(a)
	}
	return n
}

func patternOK(t *Term) bool {
	switch t.Op {
	case "ite", "and", "or", "not", "=>", "=", "forall", "exists", "bvult", "bvule", "bvslt", "bvsle", "<", "<=", "is":
		return false
	}
	for _, a := range t.Args {
		if !patternOK(a) {
			return false
		}
	}
	return true
}
