#!/usr/bin/env python3
"""Collects tools/check_mutant.sh output lines into /verif/seeded/RESULTS-own-property.txt.
usage: mkresults.py <file>...   (later files win; ids not mentioned keep their previous line)"""
import sys, re, os
path = '/verif/seeded/RESULTS-own-property.txt'
cur = {}
if os.path.exists(path):
    for l in open(path):
        m = re.match(r'(C\d\d-\d) prop=', l)
        if m:
            cur[m.group(1)] = l.rstrip('\n')
fresh = set()
for f in sys.argv[1:]:
    for l in open(f):
        l = l.rstrip('\n')
        m = re.match(r'(C\d\d-\d) prop=(C\d\d) rc=', l)
        if not m:
            # concurrent writers can clip the id: "5 prop=C05 rc=1 ..." is C05-5
            m2 = re.match(r'-?(\d) prop=(C\d\d) rc=', l)
            if m2:
                l = '%s-%s %s' % (m2.group(2), m2.group(1), l[l.index('prop='):])
                m = re.match(r'(C\d\d-\d) prop=(C\d\d) rc=', l)
        if m:
            cur[m.group(1)] = l
            fresh.add(m.group(1))
ids = sorted(d for d in os.listdir('/verif/seeded') if re.match(r'C\d\d-\d$', d))
with open(path, 'w') as out:
    for i in ids:
        if i in cur:
            out.write(cur[i] + '\n')
print('results for', sum(1 for i in ids if i in cur), 'of', len(ids), '; refreshed now:', len(fresh), '; missing:', [i for i in ids if i not in cur])
open('/verif/seeded/RESULTS-refreshed.txt', 'a').write(' '.join(sorted(fresh)) + '\n')
