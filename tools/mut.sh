#!/bin/bash
# usage: mut.sh <file> <sed-expr> <fn-list> [extra sweep args]
# Applies a sed mutation to a scratch copy of /repo (incl. contract files), runs govc sweep on the named functions, removes the copy.
set -e
D=$(mktemp -d /tmp/govc-mut.XXXXXX)
rsync -a --exclude .git --exclude compat /repo/ $D/
sed -i -E "$2" $D/$1
if diff -q /repo/$1 $D/$1 >/dev/null; then echo "MUTATION DID NOT APPLY"; rm -rf $D; exit 3; fi
(cd $D && GOFLAGS=-mod=mod GOPROXY=off GOSUMDB=off GOTOOLCHAIN=local go build ./... ) || { echo "MUTANT DOES NOT COMPILE"; rm -rf $D; exit 4; }
/verif/bin/govc sweep --repo $D --fn "$3" "${@:4}" 2>&1 | grep "^FAIL\|^UNKNOWN\|^functions\|govc:\|OUT-OF" | cut -c1-220
rm -rf $D
