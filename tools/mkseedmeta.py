#!/usr/bin/env python3
"""Writes /verif/seeded/<id>/meta.json from notes.md, confirm.txt (tools/confirm_seeded.sh) and the
detection results (tools/check_mutant.sh output collected in /verif/seeded/RESULTS-own-property.txt)."""
import json, os, re, glob
root = '/verif/seeded'
res = {}
for line in open(os.path.join(root, 'RESULTS-own-property.txt')):
    m = re.match(r'(C\d\d-\d) prop=(C\d\d) rc=(\d) violations=(\d+) ?(.*)', line.strip())
    if m:
        res[m.group(1)] = dict(prop=m.group(2), rc=int(m.group(3)), violations=int(m.group(4)), detail=m.group(5).strip())
titles = {json.loads(l)['id']: json.loads(l)['title'] for l in open('/verif/properties.jsonl')}
for d in sorted(glob.glob(root + '/C*-*')):
    sid = os.path.basename(d)
    prop = sid.split('-')[0]
    notes = open(os.path.join(d, 'notes.md')).read() if os.path.exists(os.path.join(d, 'notes.md')) else ''
    lines = [l for l in notes.splitlines() if l.strip()]
    title = lines[0].lstrip('# ').strip() if lines else sid
    needs = ''
    for i, l in enumerate(lines):
        if re.search(r'ondition|Needed to manifest|Needed:', l):
            needs = ' '.join(x.strip() for x in lines[i:i + 3])
            break
    patch = open(os.path.join(d, 'patch.diff')).read()
    files = sorted(set(re.findall(r'^\+\+\+ b/(\S+)', patch, re.M)))
    confirm = open(os.path.join(d, 'confirm.txt')).read().strip() if os.path.exists(os.path.join(d, 'confirm.txt')) else ''
    r = res.get(sid, {})
    detected = r.get('rc') == 1 and r.get('violations', 0) > 0
    obls = [re.sub(r' status=.*', '', x).strip() for x in r.get('detail', '').split(';') if x.strip()]
    replayed = [x for x in r.get('detail', '').split(';') if x.strip() and 'no-failing-input-found' not in x and 'no-failing-i' not in x and 'status=sat' in x]
    meta = {
        'id': sid,
        'property': prop,
        'property_title': titles.get(prop, ''),
        'summary': title,
        'files_changed': files,
        'needs_to_manifest': re.sub(r'[*`]', '', needs)[:900],
        'author': 'sub-agent given only the property text and a scratch worktree of /repo; nothing from /verif',
        'confirmation': {
            'how': 'tools/confirm_seeded.sh %s: scratch worktree of /repo HEAD, git apply patch.diff, go build ./..., demonstration test(s) demo*_test.go with the patch (must fail) and without it (must pass); the full pinned suite (go test -vet=off -count=1 -timeout 25m ./...) was run with the patch when the change was first confirmed' % sid,
            'result': confirm,
        },
        'detection': {
            'command': 'tools/check_mutant.sh %s  (scratch worktree of /repo HEAD; git apply patch.diff there; /verif/bin/govc check --repo <worktree> --property %s --tier quick; worktree removed)' % (sid, prop),
            'detected_by_own_property_quick_check': detected,
            'failing_obligations': obls,
            'counterexample_replayed_on_real_code': bool(replayed),
        },
    }
    extra = os.path.join(d, 'extra.json')
    if os.path.exists(extra):
        meta.update(json.load(open(extra)))
    json.dump(meta, open(os.path.join(d, 'meta.json'), 'w'), indent=1)
# detection table for DESIGN.md section 9.4
rows = []
for d in sorted(glob.glob(root + '/C*-*')):
    sid = os.path.basename(d)
    m = json.load(open(os.path.join(d, 'meta.json')))
    det = m['detection']
    obl = '; '.join('`%s`' % o[:90] for o in det['failing_obligations'][:2]) if det['detected_by_own_property_quick_check'] else '**not caught**'
    rp = 'reproduced on the real code' if det['counterexample_replayed_on_real_code'] else ('no-failing-input-found' if det['detected_by_own_property_quick_check'] else '')
    rows.append('| %s | %s | %s |' % (sid, obl, rp))
table = '\n'.join(rows)
dp = '/verif/DESIGN.md'
ds = open(dp).read()
if '@@TABLE@@' in ds:
    ds = ds.replace('@@TABLE@@', '<!-- TABLE-BEGIN -->\n' + table + '\n<!-- TABLE-END -->')
else:
    ds = re.sub(r'<!-- TABLE-BEGIN -->.*?<!-- TABLE-END -->', lambda _: '<!-- TABLE-BEGIN -->\n' + table + '\n<!-- TABLE-END -->', ds, flags=re.S)
open(dp, 'w').write(ds)
print('meta written for', len(glob.glob(root + '/C*-*')), 'detected', sum(1 for r in rows if 'not caught' not in r))
