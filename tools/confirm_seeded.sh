#!/bin/bash
# usage: confirm_seeded.sh <ID> [suite]   -- re-confirms /verif/seeded/<ID> against /repo HEAD in a scratch worktree:
# the patch applies and builds, (optionally) the pinned suite passes with it, the demonstration test fails with
# the patch and passes without it.  Prints one line; writes /verif/seeded/<ID>/confirm.txt.
ID=$1; SUITE=$2
SRC=/verif/seeded/$ID
W=/tmp/sw/c-$ID
export GOFLAGS=-mod=mod GOPROXY=off GOSUMDB=off GOTOOLCHAIN=local
mkdir -p /tmp/sw
rm -rf $W; git -C /repo worktree prune; git -C /repo worktree add -q --detach $W HEAD || { echo "$ID worktree-failed"; exit 1; }
head=$(git -C /repo rev-parse --short HEAD)
res="$ID head=$head"
cd $W
if git apply $SRC/patch.diff 2>/dev/null; then res="$res applies=yes"; else res="$res applies=NO"; echo "$res"; cd /; git -C /repo worktree remove --force $W; exit 0; fi
if go build ./... 2>/dev/null; then res="$res build=ok"; else res="$res build=FAIL"; fi
if [ -n "$SUITE" ]; then
  if go test -vet=off -count=1 -timeout 25m ./... >/dev/null 2>&1; then res="$res suite=pass"; else res="$res suite=FAIL"; fi
fi
names=$(grep -ho '^func Test[A-Za-z0-9_]*' $SRC/demo*_test.go | sed 's/^func //' | sort -u | tr '\n' '|' | sed 's/|$//')
RUN="^($names)\$"
for demo in $SRC/demo*_test.go; do
  dst=$W/$(basename $demo); if grep -q "^package sexp" $demo; then dst=$W/sexp/$(basename $demo); fi
  cp $demo $dst
done
if go test -vet=off -count=1 -timeout 10m -run "$RUN" ./... >/dev/null 2>&1; then res="$res demo_with_patch=PASS(bad)"; else res="$res demo_with_patch=fail"; fi
git apply -R $SRC/patch.diff
if go test -vet=off -count=1 -timeout 10m -run "$RUN" ./... >/dev/null 2>&1; then res="$res demo_without_patch=pass"; else res="$res demo_without_patch=FAIL(bad)"; fi
echo "$res" | tee $SRC/confirm.txt
cd /; git -C /repo worktree remove --force $W
