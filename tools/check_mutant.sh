#!/bin/bash
# usage: check_mutant.sh <ID> [props...]
# Applies the seeded change /verif/seeded/<ID>/patch.diff to a scratch worktree of /repo HEAD (never to /repo
# itself), runs the quick check of the property (or of the listed properties) on that tree, removes the worktree.
ID=$1; shift
P=${ID%%-*}
props="$@"; [ -z "$props" ] && props=$P
patch=/verif/seeded/$ID/patch.diff
W=/tmp/sw/m-$ID
mkdir -p /tmp/sw
rm -rf $W; git -C /repo worktree prune; git -C /repo worktree add -q --detach $W HEAD || { echo "$ID worktree-failed"; exit 1; }
( cd $W && git apply $patch ) || { echo "$ID APPLY-FAILED"; git -C /repo worktree remove --force $W; exit 1; }
for p in $props; do
  out=$(${GOVC:-/verif/bin/govc} check --repo $W --property $p --tier quick --evidence /tmp/sw/evidence-$ID 2>&1); rc=$?
  v=$(echo "$out" | grep -c "^VIOLATION")
  first=$(echo "$out" | grep "^VIOLATION" | head -3 | sed 's/.*obligation=//' | cut -c1-110 | tr '\n' ';')
  echo "$ID prop=$p rc=$rc violations=$v $first $(echo "$out" | grep '^govc:' | head -1 | cut -c1-120)"
done
git -C /repo worktree remove --force $W; rm -rf /tmp/sw/evidence-$ID
