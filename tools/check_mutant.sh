#!/bin/bash
# usage: check_mutant.sh <ID> [props...]  -- applies the confirmed patch to /repo, runs the quick checks, restores /repo
ID=$1; shift
P=${ID%%-*}
props="$@"; [ -z "$props" ] && props=$P
patch=/tmp/sw/$ID.patch
[ -f /verif/seeded/$ID/patch.diff ] && patch=/verif/seeded/$ID/patch.diff
cd /repo
git apply $patch || { echo "$ID APPLY-FAILED"; exit 1; }
for p in $props; do
  out=$(/verif/bin/govc check --property $p --tier quick --evidence /tmp/sw/evidence 2>&1); rc=$?
  v=$(echo "$out" | grep -c "^VIOLATION")
  first=$(echo "$out" | grep "^VIOLATION" | head -2 | sed 's/.*obligation=//' | cut -c1-90 | tr '\n' ';')
  echo "$ID prop=$p rc=$rc violations=$v $first $(echo "$out" | grep '^govc:' | head -1 | cut -c1-120)"
done
git -C /repo checkout -- .
