#!/bin/bash
ID=$1; SRC=/tmp/mut/out/$ID; W=/tmp/sw/w-$ID
export GOFLAGS=-mod=mod GOPROXY=off GOSUMDB=off GOTOOLCHAIN=local
rm -rf $W; git -C /repo worktree add -q --detach $W HEAD; cd $W
git apply /tmp/sw/$ID.patch || { echo "$ID adapted-apply-failed"; exit 1; }
res="$ID applies=adapted"
go build ./... 2>/dev/null && res="$res build=ok" || res="$res build=FAIL"
go test -vet=off -count=1 -timeout 20m ./... >/dev/null 2>&1 && res="$res suite=pass" || res="$res suite=FAIL"
cp $SRC/demo*_test.go $W/
go test -vet=off -count=1 -timeout 10m -run 'TestSeeded_' . >/dev/null 2>&1 && res="$res demo_with=PASS(bad)" || res="$res demo_with=fail"
git checkout -q -- .
go test -vet=off -count=1 -timeout 10m -run 'TestSeeded_' . >/dev/null 2>&1 && res="$res demo_without=pass" || res="$res demo_without=FAIL(bad)"
echo "$res"; cd /; git -C /repo worktree remove --force $W
