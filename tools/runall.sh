#!/bin/bash
# runs every quick check; prints one summary line per property
tier=${1:-quick}
for p in C01 C02 C03 C04 C05 C06 C07 C08 C09 C10 C11 C12 C13 C14 C15 C16 C17 C18 C19 C20; do
  s=$(date +%s)
  out=$(/verif/bin/govc check --property $p --tier $tier 2>&1); rc=$?
  e=$(date +%s)
  echo "$p rc=$rc $((e-s))s $(echo "$out" | grep '^property=' | cut -c1-200)"
  echo "$out" | grep "^VIOLATION\|^KNOWN-FINDING\|^govc:" | cut -c1-260
done
