#!/bin/bash
# usage: replay.sh <replay file>  -- prints the replay record (obligation, input, verdict) and, when a Go test
# was generated for the counterexample, runs it again against the current working tree of /repo.
f=$1
[ -f "$f" ] || { echo "no such replay file: $f"; exit 2; }
sed '/^--- solver output ---/q' "$f"
t=$(grep -m1 '^replay test:' "$f" | sed 's/^replay test: //')
if [ -n "$t" ] && [ -f "$t" ]; then
  ov="${t%_test.go}.overlay.json"
  dst=$(jq -r '.Replace | keys[0]' "$ov")
  pkgdir=$(dirname "$dst")
  echo "--- re-running $t in $pkgdir ---"
  export GOFLAGS=-mod=mod GOPROXY=off GOSUMDB=off GOTOOLCHAIN=local
  (ulimit -v 8000000; cd "$pkgdir" && go test -overlay "$ov" -vet=off -count=1 -v -run '^TestZZReplay$' -timeout 60s . 2>&1 | grep -a "ZZREPLAY\|^panic\|FAIL\|^ok" | cut -c1-1500)
fi
exit 0
