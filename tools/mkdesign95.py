#!/usr/bin/env python3
"""Rewrites section 9.5 of /verif/DESIGN.md from MANIFEST.json, the baseline lists and known_findings.txt."""
import json, re
m = json.load(open('/verif/MANIFEST.json'))
kf = {}
for l in open('/verif/known_findings.txt'):
    mm = re.match(r'finding: property=(C\d\d) ', l)
    if mm:
        kf[mm.group(1)] = kf.get(mm.group(1), 0) + 1
tot = 0
lines = []
for c in m['checks']:
    p = c['property_id']
    n = sum(1 for l in open('/verif/baseline/%s.txt' % p) if l.strip())
    tot += n
    text = c['level_claimed']['text']
    claim, _, rem = text.partition(' Not decided: ')
    lines.append('* **%s** (%d obligations, %d known finding(s)). %s  *Not decided:* %s\n' % (p, n, kf.get(p, 0), claim, rem))
allnames = set()
for c in m['checks']:
    for l in open('/verif/baseline/%s.txt' % c['property_id']):
        if l.strip():
            allnames.add(l.strip())
head = ('### 9.5 Per property: what the committed check decides\n\n'
        'The numbers are the baseline obligations the quick check discharges on the unchanged tree\n'
        '(every one of them on every run; a property\'s obligations are those whose contract label or\n'
        'owning function carries the property id, so the sum over properties, %d, exceeds the %d\n'
        'distinct obligations in the baselines).  The texts are those of MANIFEST.json (`tools/mkmanifest.py`);\n'
        'this section is written by `tools/mkdesign95.py`.\n\n' % (tot, len(allnames)))
d = open('/verif/DESIGN.md').read()
i = d.index('### 9.5 Per property')
j = d.find('\n## ', i)
tail = d[j:] if j >= 0 else ''
open('/verif/DESIGN.md', 'w').write(d[:i] + head + '\n'.join(lines) + tail)
print('9.5 written:', tot, len(allnames))
