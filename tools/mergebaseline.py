#!/usr/bin/env python3
"""Merges full baseline passes (govc baseline-all --strict --max 6, one directory per pass holding the
C??.txt / C??.all.txt it wrote and its output as log.txt) into /verif/baseline:
  baseline[p] = obligations eligible (< 6 s) in every pass in which they existed
              + obligations of the previous committed baseline that were discharged (any time) in every pass
  .all[p]     = the obligations that exist in the last pass.
usage: mergebaseline.py <old_baseline_dir> <pass_dir>..."""
import sys, os, re
old_dir, passes = sys.argv[1], sys.argv[2:]
props = ['C%02d' % i for i in range(1, 21)]
def rd(path):
    return set(l.rstrip('\n') for l in open(path) if l.strip()) if os.path.exists(path) else set()
failed = []
for d in passes:
    f = set()
    for l in open(os.path.join(d, 'log.txt')):
        m = re.match(r'^(sat|unknown|timeout|\S+)\s+(\S.*)$', l.rstrip('\n'))
        if m and not l.startswith(('baseline', 'obligations', 'PASS')):
            f.add(m.group(2).strip())
    failed.append(f)
tot = 0
for p in props:
    E = [rd(os.path.join(d, p + '.txt')) for d in passes]
    A = [rd(os.path.join(d, p + '.all.txt')) for d in passes]
    old = rd(os.path.join(old_dir, p + '.txt'))
    cur = A[-1]
    out = set()
    for n in cur:
        exists = [i for i in range(len(passes)) if n in A[i]]
        if all(n in E[i] for i in exists) and len(exists) >= min(2, len(passes)):
            out.add(n)
        elif n in old and all(n in A[i] and n not in failed[i] for i in range(len(passes))):
            out.add(n)
    open('/verif/baseline/%s.txt' % p, 'w').write('\n'.join(sorted(out)) + '\n')
    open('/verif/baseline/%s.all.txt' % p, 'w').write('\n'.join(sorted(cur)) + '\n')
    lost = sorted(n for n in old if n not in out)
    tot += len(out)
    print(p, 'baseline', len(out), 'was', len(old), 'new', len(out - old), 'lost', len(lost))
    for n in lost[:12]:
        print('   lost:', n[:150], '(gone)' if n not in cur else '')
print('total', tot)
