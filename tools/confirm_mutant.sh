#!/bin/bash
# usage: confirm_mutant.sh <ID>   (e.g. C05-1)  -- confirms a seeded change in a scratch worktree of /repo HEAD
ID=$1
SRC=/tmp/mut/out/$ID
W=/tmp/sw/$ID
export GOFLAGS=-mod=mod GOPROXY=off GOSUMDB=off GOTOOLCHAIN=local GOCACHE=/tmp/sw/gocache-$ID
rm -rf $W; git -C /repo worktree add -q --detach $W HEAD || { echo "$ID worktree-failed"; exit 1; }
res="$ID"
cd $W
if ! git apply --check $SRC/patch.diff 2>/dev/null; then
  if git apply --3way $SRC/patch.diff 2>/dev/null; then res="$res applies=3way"; git reset -q; else res="$res applies=NO"; echo "$res"; cd /; git -C /repo worktree remove --force $W; rm -rf $GOCACHE; exit 0; fi
else
  git apply $SRC/patch.diff; res="$res applies=yes"
fi
git diff > $W.patch
demo=$(ls $SRC/demo*_test.go | head -1)
dst=$W/$(basename $demo); case "$demo" in *sexp*) dst=$W/sexp/$(basename $demo);; esac
if go build ./... 2>/dev/null; then res="$res build=ok"; else res="$res build=FAIL"; fi
if go test -vet=off -count=1 -timeout 20m ./... >/dev/null 2>&1; then res="$res suite=pass"; else res="$res suite=FAIL"; fi
cp $demo $dst
if go test -vet=off -count=1 -timeout 10m -run 'TestSeeded_' ./... >/dev/null 2>&1; then res="$res demo_with=PASS(bad)"; else res="$res demo_with=fail"; fi
git checkout -q -- . 
if go test -vet=off -count=1 -timeout 10m -run 'TestSeeded_' ./... >/dev/null 2>&1; then res="$res demo_without=pass"; else res="$res demo_without=FAIL(bad)"; fi
echo "$res"
cd /; git -C /repo worktree remove --force $W; rm -rf $GOCACHE
