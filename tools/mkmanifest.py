#!/usr/bin/env python3
"""Regenerates /verif/MANIFEST.json (the per-property texts live here)."""
import json, subprocess

COMMON_NOTE = ("Trusted base: the VC generator /verif/govc (go/ssa front end of golang.org/x/tools v0.29.0, our symbolic executor and "
               "SMT encoding), the solvers z3 5.1.0 / z3 4.8.12 / cvc5 1.0.3, the assumed contracts of the standard library and of "
               "constbn/memcall in /verif/specs/external.spec, the native models of encoding/binary, bytes.HasPrefix, fmt.Sprintf and "
               "hmac.New, the init probe (package-level state read back from one execution of the real init()), contracts marked "
               "'opaque' in /repo/verif_contracts.go (event helpers, memory locking, unsafe wipe, debug dump, processSMPTLV, generateSMP1/2, Fingerprint, maybeRetransmit). The representation invariants convOK(c) and akeInv(c) of a Conversation are assumed at entry of Receive; their re-establishment is proved on the key-exchange path only. For 'modifies anything' contracts the havoc is bounded by the field-level write set computed from the callee's body (type safety of Go). Assignment targets are evaluated in gc order (after the calls on the right-hand side). "
               "Machine integers are bit-vectors with Go semantics; 64-bit multiplication/division of two symbolic operands are "
               "uninterpreted (sound over-approximation). Cryptographic hardness is never modelled. Only the obligations listed in "
               "/verif/baseline/<id>.txt are claimed as proved; everything else generated for the property is reported in the evidence "
               "as attempted_not_counted.")

P = {
 "C01": ("AKE gating and installation: the encrypted state is entered only inside akeHasFinished and only on a path where the commitment check (sha256 of the decrypted g^x equals the committed hash), the MAC check and the DSA signature check have all returned success in the same call (ghost flags set by checkDecryptedGx / verifyEncryptedSignatureMAC / checkedSignatureVerification); received DH values are proved in range 2..p-2 (real p); Conversation.theirKey changes only after the signature verified; the nine 'unexpected message' cells of the AKE automaton are no-ops; installed key ids and DH keys are those of the exchange; processAKE (the dispatcher over the 16 cells, verified against the AKE representation invariant) changes msgState or the reported peer key only when the MAC and signature flags are set.",
         "Cryptographic unforgeability, SSID agreement between two parties and the MAC term of verifyEncryptedSignatureMAC (prefix of an HMAC) are not decided; c.ssid is assigned before verification (recorded limitation, an existing test pins calcAKEKeys)."),
 "C02": ("Data message acceptance: wire layout of the authenticated part (offsets of flag, key ids, next DH key, counter, ciphertext, MAC) as postconditions of deserialize; checkSign returns nil iff the 20-byte authenticator equals HMAC-SHA1(key, header||unsigned part) as an uninterpreted hash term; plaintext, TLV processing, key rotation and replies happen only after checkSign succeeded in this call (ghost flag), and a message that fails authentication leaves state, key ids, DH keys, counters, disclosed-key list, peer key and SMP state unchanged; key selection accepts exactly current/previous ids.",
         "HMAC unforgeability; equality of the verified key with the spec-derived key term is not proved (session-key derivation is contracted on lengths only)."),
 "C03": ("Send-path contracts: data messages are generated only when msgState==encrypted (genDataMsgWithFlag refuses otherwise and leaves the queue alone); under requireEncryption sendMessageOnPlaintext returns exactly one fresh query message (not aliasing the text) and queues the text; in finished state Send returns an error, raises ConnectionEnded and derives nothing from the text.",
         "Confidentiality of AES-CTR and the byte-level taint argument are not decided; Receive-side outputs are covered only through the same generators."),
 "C04": ("Ratchet step contracts: sender uses (ourKeyID-1, theirKeyID) and advertises the current DH public key, never rotates; receiver accepts exactly {current, previous} on both axes and returns the matching stored keys; rotateOurKeys/rotateTheirKey rotate iff the acknowledged id is the newest, shift current to previous, increment the id, and are no-ops otherwise; akeHasFinished installs the exchange's keys and ids.",
         "The two-party interleaving quantifier (in-flight window lemma) is not discharged; counters are covered under C05."),
 "C05": ("Replay protection: checkMessageCounter returns nil iff the 64-bit counter is strictly greater than the stored one for exactly that (recipient,sender) key pair, stores it only then and leaves other pairs alone (quantified list contracts over counterHistory with uniqueness invariant); retired key ids are rejected by pickOurKeys/pickTheirKey; unauthenticated messages change no counter.",
         "Replay into later sessions rests on fresh DH keys (not modelled)."),
 "C06": ("Rejected messages: after the repairs, a data message failing authentication changes no session state except the recorded finding (MAC key history, F4); instance tags are adopted only from validated messages; version and key are not committed on header errors; AKE cells return the same state on error and processDHKey/processDHCommit/processEncryptedSig leave their fields unchanged on error; a reveal-signature message rejected at the commitment check leaves the stored commitment bytes and the peer value alone.",
         "Frames cover the listed fields, not the whole heap; a reveal-signature message rejected after the commitment check (bad MAC or signature) has already replaced c.ake.theirPublicValue and the AKE keys (recorded limitation, pinned by Test_calcAKEKeys); F7 (AKE context wiped before parsing a DH-Commit) is not covered by an obligation."),
 "C07": ("AKE transition table: each of the 16 (state,message) cells is contracted with its next state and reply kind; retransmission cell; collision handling; every cell and the dispatcher processAKE re-establish the representation invariant that ties the stored state to the fields the next cell dereferences (so no cell can be entered with a missing exponent, peer value or long-term key). The collision-winner cell violates the specification (known finding F8).",
         "Termination of the composed two-party system is not decided (liveness of a product automaton is outside contract reasoning)."),
 "C08": ("Zeroing helpers proved to zero in place (wipeBytes, wipeSecretKeyValue, wipeBigInt, dhKeyPair.wipe, akeKeys.wipe, wipeGX, wipeKeys); rotation zeroes the retired private key and keeps state on randomness failure; End/disconnect/akeHasFinished/restart paths and the abandonment of a pending exchange by a new D-H Commit are proved to call the wipes exactly once (ghost call counters, including the wipe of the exchange's key context) and to nil the secret fields.",
         "Zeroing across calls with 'modifies anything' frames is carried by call-presence ghosts, not by byte-level postconditions; resend queue retention (F10) is not covered."),
 "C09": ("MAC key disclosure: keys move from macKeyHistory to oldMACKeys only in the rotation branch that retires their key id (no-op otherwise), conserving the total count; revealMACKeys hands out all of them and empties the list; genDataMsgWithFlag discloses exactly the old list; a rejected data message never shrinks the MAC-key history; the revealed-keys section of a data message is consumed in whole 20-byte keys.",
         "Which entries are removed (multiset exactness of deleteKeysAt) is proved only as counts; re-AKE carry-over (F11) is not covered."),
 "C10": ("Wire format pieces proved against spec terms: v2/v3 message headers, data message field offsets, key ids and non-zero counter on send, HMAC terms for checkSign and sumHMAC, commitment hash term, query message prefix/version letters, DH shared secret term, public key of a rotation, the 40-byte r||s layout of DSA signatures (each value right-aligned in 20 bytes; keys with a larger q are refused, F28 repaired), acceptance of every well-formed unsigned part of a data message.",
         "Key-derivation byte constants, base64 armour and fragment prefix contents are not proved (lengths only)."),
 "C11": ("SMP final comparisons: verifySMP3ProtocolSuccess / verifySMP4ProtocolSuccess return nil iff Rab equals Pa/Pb (as powmod/invmod terms over the real p).",
         "Secret binding, message terms, the algebraic iff-lemma and the event gate are not covered by discharged obligations (SMP message processing is an assumed contract)."),
 "C12": ("SMP robustness: group-membership postconditions of verifySMP1/2 and version-specific isGroupElement (v2 violates: known finding F12); out-of-sequence cells of the state machine abort to EXPECT1 with an error event; a restart from a non-idle state sends the abort TLV first; cheating path; ensureSMP; continueSMP no longer dereferences a nil state.",
         "processSMPTLV is an assumed contract; divMod's invertibility precondition is not established at its call sites."),
 "C13": ("Safety obligations (index, slice bounds, nil dereference, nil interface/func call, division by zero, type assertion, make with negative size, external preconditions) and loop/recursion termination measures for the ~220 functions under contract, including all Extract*/deserialize parsers, the whitespace-tag parser, the recursive s-expression reader (every call consumes input or stops; after the F13 repair) and the libotr key-file import built on it, and the Receive entry point itself (receiveUnit, receiveEncoded with receiveDecoded inlined, processAKE, the data-message path) under the representation invariants of a Conversation, with or without long-term keys (F27 repaired), under arbitrary inputs satisfying the stated preconditions.",
         "Functions without a contract (key-file export, SMP message generation) and the assumed contracts maybeRetransmit/processSMPTLV are not covered; that a processed data message re-establishes convOK and that parsed TLVs stay well-formed across handler calls are stated but not discharged; allocation bounds are not checked; the bufio.Reader under the s-expression reader is a ghost model (rdlen/rdpos/rdlast), not verified library code; F19 is a known finding."),
 "C14": ("Fragmentation: after the repairs, unfragmented pass-through cases, fragment count formula, separator byte, prefix lengths (35/17), receive-side decision table (restart / next with same total / forget / unchanged on error) and its index<=total invariant, decimal fields parsed without truncation, a completed stream is forgotten before the reassembled message is processed (exactly-once hand-over, F20 repaired), accepted fragments inject nothing.",
         "Piece boundaries i*r..min((i+1)*r,l) need nonlinear arithmetic and stay attempted."),
 "C15": ("Instance tags: verdict table of verifyInstanceTags, peer tag learned only from valid messages addressed to us, header fields at offsets 3 and 7, own tag >= 0x100 when generated, ExtractInstanceTags reads the decoded offsets 3 and 7, a v3 fragment is accepted only with a valid sender tag.",
         "InitializeInstanceTag accepts 1..0xff (known finding F21); fragment branch of ExtractInstanceTags is safety-only."),
 "C16": ("Version commitment: sticky once set (also across fragment handling), v3 preferred over v2 within policy and offer, error and no commitment otherwise, committed version always allowed by policy, checkVersion ties the committed version to the message's version word; query message lists exactly the allowed versions; the whitespace-tag scanner only ever adds versions and consumes 8-byte groups; Send with OTR disabled returns one copy and Receive with OTR disabled returns the bytes it was given (F26 repaired).",
         "Query-message version parsing is covered only for safety; Receive pass-through of ordinary plaintext in the enabled case is covered only as a length/copy fact."),
 "C17": ("Parsers proved against layouts: data message fields, TLV header and value window, AKE message deserializers (length and containment facts), ExtractMPI accepts exactly the well-formed encodings (including zero), s-expression reader result types, and the text exportName/exportProtocol hand to the writer (ghost model of bufio.Writer).",
         "Round-trip lemmas are not stated as lemmas; exportParameter (fmt.Sprintf content) and the composed export/import round trip are not covered."),
 "C18": ("Lifecycle: msgState is preserved by every contracted function except akeHasFinished (encrypted), End (plainText) and processDisconnectedTLV (finished); GoneSecure/StillSecure/GoneInsecure are appended to the ghost event log exactly on those transitions; queue append/clear/skip-while-retransmitting; last-message flag.",
         "retransmit/processAKE flush discipline (F25) and 'at most once' over histories are not covered."),
 "C19": ("Boundedness pieces: findCounterFor grows the list only for a new pair, deleteKeysAt/forgetMACKeys shrink by exactly the returned count, injections are flushed (also by Receive itself), queue cleared and not refilled while retransmitting; rejected messages do not grow counters.",
         "The history lists are not bounded by a constant on today's code (F5/F10); only the listed monotonicity facts are proved."),
 "C20": ("No shared mutable state: every store, in-place append, copy and contracted callee effect in the functions under contract targets an object outside the global region (ids established by the init probe), and no reference to a package-level array escapes into the heap or across a contract boundary; global slices have len==cap per the probe.",
         "The schedule quantifier is covered only by this sequential frame argument; functions without a contract are not covered."),
}

titles = {json.loads(l)["id"]: json.loads(l)["title"] for l in open("/verif/properties.jsonl")}
hooks = subprocess.run(["git", "-C", "/repo", "log", "--format=%h %s"], capture_output=True, text=True).stdout.splitlines()
hook_commits = [l.split()[0] for l in hooks if "verif hook" in l]

checks = []
for pid in sorted(P):
    claim, rem = P[pid]
    checks.append({
        "property_id": pid,
        "quick_cmd": f"/verif/bin/govc check --property {pid} --tier quick",
        "thorough_cmd": f"/verif/bin/govc check --property {pid} --tier thorough",
        "evidence_file": f"/verif/evidence/{pid}.json",
        "replay_cmd_template": "/verif/tools/replay.sh {path}",
        "engine": "govc",
        "technique": "contract-based deductive verification: function contracts in /repo/verif_contracts.go and /repo/sexp/verif_contracts.go, VCs generated from go/ssa of the real code, discharged by z3/cvc5; counterexamples replayed on the real code through go test -overlay",
        "level_claimed": {"category": "proof", "text": claim + " Not decided: " + rem, "design_ref": "DESIGN.md section 4, " + pid},
        "level_note": COMMON_NOTE,
    })

m = {
    "version": 1,
    "setup_cmd": "cd /verif/govc && GOFLAGS=-mod=mod GOPROXY=off GOSUMDB=off GOTOOLCHAIN=local go build -o /verif/bin/govc .",
    "hooks": {
        "guard": "verif",
        "enable": "go build -tags verif (the contract files /repo/verif_contracts.go and /repo/sexp/verif_contracts.go are comment-only and add no compiled code; govc loads /repo with -tags=verif)",
        "baseline_off_cmd": "cd /repo && GOFLAGS=-mod=mod GOPROXY=off GOSUMDB=off GOTOOLCHAIN=local go test -vet=off -count=1 -timeout 25m ./...",
        "source_commits": hook_commits,
        "add_only": True,
    },
    "engines": [{"name": "govc", "path": "/verif/govc", "serves_properties": sorted(P),
                 "kind_free_text": "VC generator for Go (go/ssa symbolic execution, bit-vector integers, typed heap, contracts as //@ comments) + SMT solver race"}],
    "checks": checks,
    "notes": "Known findings: /verif/known_findings.txt. Baseline obligation lists: /verif/baseline/. Seeded changes with meta.json and detection results: /verif/seeded/. Replay files are written to /verif/replay/<property>/<obligation>.txt (the generated Go test is next to them under /verif/replay/src).",
    "not_applicable": [],
}
json.dump(m, open("/verif/MANIFEST.json", "w"), indent=1)
print("checks:", len(checks), "hook commits:", len(hook_commits))
