package otr3

import (
	"runtime"
	"testing"
)

// F16 (repaired by /repo commit b8f8730): a four byte TLV value made ExtractMPIs allocate
// count*8 bytes for a count read from the wire; {0x7f,0xff,0xff,0xff} asks for 16 GiB.
// Fails on the tree before the repair, passes after it.
func Test_F16_ExtractMPIs_allocation(t *testing.T) {
	var before, after runtime.MemStats
	runtime.ReadMemStats(&before)
	_, _, ok := ExtractMPIs([]byte{0x00, 0x40, 0x00, 0x00})
	runtime.ReadMemStats(&after)
	if ok {
		t.Fatalf("accepted")
	}
	if d := after.TotalAlloc - before.TotalAlloc; d > 1<<20 {
		t.Fatalf("a 4 byte input made ExtractMPIs allocate %d bytes", d)
	}
}
