package otr3

import (
	"crypto/rand"
	"math/big"
	"testing"
)

// F12 consequence: under OTRv2 SMP values are not range checked, so g2a = g3a = 0 is accepted; the
// responder then computes Qb = 0, and the next SMP message 3 makes divMod dereference the nil that
// ModInverse returns for 0.
func Test_F12_v2_degenerateSMP1_crashesOnMessage3(t *testing.T) {
	c := &Conversation{Rand: rand.Reader}
	c.version = otrV2{}
	c.msgState = encrypted
	c.ourCurrentKey = bobPrivateKey
	c.theirKey = alicePrivateKey.PublicKey()
	c.smp.ensureSMP()

	zero := new(big.Int)
	one := big.NewInt(1)
	h := func(ix byte, xs ...*big.Int) *big.Int { return hashMPIsBN(c.version.hash2Instance(), ix, xs...) }
	// r = g1^d * gen^c = g1 * 0 = 0 (mod p)
	m1 := smp1Message{g2a: zero, g3a: zero, c2: h(1, zero), d2: one, c3: h(2, zero), d3: one}
	if err := c.verifySMP1(m1); err != nil {
		t.Skipf("degenerate message 1 rejected: %v", err)
	}
	_, err := m1.receivedMessage(c)
	if err != nil {
		t.Fatal(err)
	}
	if _, err := c.continueSMP([]byte("secret")); err != nil {
		t.Fatal(err)
	}
	if c.smp.s2.qb.Sign() != 0 {
		t.Skipf("Qb is not 0")
	}
	m3 := smp3Message{pa: big.NewInt(5), qa: big.NewInt(7), ra: big.NewInt(9), cp: h(6, zero, zero), d5: one, d6: one, cr: one, d7: one}
	defer func() {
		if r := recover(); r != nil {
			t.Fatalf("SMP message 3 crashed the receiver: %v", r)
		}
	}()
	_, _ = m3.receivedMessage(c)
}
